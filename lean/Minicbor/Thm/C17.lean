/-
  C17 — the serde bridge round-trips the serde data model with the documented representation.
  Property theorems only.  The model is Minicbor/Serde.lean (`SVal` = the Serializer-call tree
  of a value, `ser` = ser.rs, `SType` / `de` = de.rs composed with serde's std / derive
  visitors, `Content` / `deAny` / `fromC` = serde's private buffer).
-/
import Minicbor.Lemmas.SerdeStruct
import Minicbor.Lemmas.SerdeAny

namespace Minicbor.C17
open Minicbor.Serde Minicbor.Dec

/-! ## 1. `ser` writes one well-formed item, in the documented representation -/

/-- the wire tree of an integer: preferred head of major type 0 or 1. -/
def intW (v : Int) : WItem :=
  if v ≥ 0 then .uint (prefWidth v.toNat) v.toNat else .nint (prefWidth (-1 - v).toNat) (-1 - v).toNat

def textW (s : Bytes) : WItem := .text (prefWidth s.length) s

mutual
/-- the wire tree `ser` writes. -/
def toW : SVal → WItem
  | .bool b => .simple (if b then 21 else 20)
  | .int _ v => intW v
  | .f32 b => .f32 b
  | .f64 b => .f64 b
  | .char c => .uint (prefWidth c) c
  | .str s => textW s
  | .bytes b => .bytes (prefWidth b.length) b
  | .none => .simple 22
  | .some v => toW v
  | .unit => .array .w0 []
  | .unitStruct => .array .w0 []
  | .unitVariant n => textW n
  | .newtypeStruct v => toW v
  | .newtypeVariant n v => .map .w0 [textW n, toW v]
  | .seq known xs => if known then .array (prefWidth xs.length) (toWs xs) else .arrayI (toWs xs)
  | .tuple xs => .array (prefWidth xs.length) (toWs xs)
  | .tupleStruct xs => .array (prefWidth xs.length) (toWs xs)
  | .tupleVariant n xs => .map .w0 [textW n, .array (prefWidth xs.length) (toWs xs)]
  | .map known kvs => if known then .map (prefWidth (kvs.length / 2)) (toWs kvs) else .mapI (toWs kvs)
  | .struct kvs => .map (prefWidth (kvs.length / 2)) (toWs kvs)
  | .structVariant n kvs => .map .w0 [textW n, .map (prefWidth (kvs.length / 2)) (toWs kvs)]
def toWs : List SVal → List WItem
  | [] => []
  | x :: xs => toW x :: toWs xs
end

mutual
/-- the value is in the range of its Rust type: integers within their kind, floats within
    their width, chars scalar values, strings valid UTF-8, lengths below 2^64, maps and structs
    with whole entries. -/
def vok : SVal → Bool
  | .bool _ => true
  | .int k v => k.lo ≤ v && v ≤ k.hi
  | .f32 b => b < 4294967296
  | .f64 b => b < U64
  | .char c => isScalar c
  | .str s => nameOk s
  | .bytes b => b.length < U64
  | .none => true
  | .some v => vok v
  | .unit => true
  | .unitStruct => true
  | .unitVariant n => nameOk n
  | .newtypeStruct v => vok v
  | .newtypeVariant n v => nameOk n && vok v
  | .seq _ xs => xs.length < U64 && oks xs
  | .tuple xs => xs.length < U64 && oks xs
  | .tupleStruct xs => xs.length < U64 && oks xs
  | .tupleVariant n xs => nameOk n && xs.length < U64 && oks xs
  | .map _ kvs => kvs.length % 2 == 0 && kvs.length / 2 < U64 && oks kvs
  | .struct kvs => kvs.length % 2 == 0 && kvs.length / 2 < U64 && oks kvs
  | .structVariant n kvs => nameOk n && kvs.length % 2 == 0 && kvs.length / 2 < U64 && oks kvs
def oks : List SVal → Bool
  | [] => true
  | x :: xs => vok x && oks xs
end

theorem toWs_length (xs : List SVal) : (toWs xs).length = xs.length := by
  induction xs with
  | nil => simp [toWs]
  | cons x xs ih => simp [toWs, ih]

theorem intW_enc_nonneg (v : Int) (h : 0 ≤ v) : encW (intW v) = encPref (.uint v.toNat) := by
  simp [intW, h, encPref, prefTree]

theorem intItem_enc (v : Int) : encPref (C03.intItem v) = encW (intW v) := by
  unfold C03.intItem intW
  split <;> simp [encPref, prefTree]

theorem encInt_eq (k : IntKind) (v : Int) (h1 : k.lo ≤ v) (h2 : v ≤ k.hi) : encInt k v = encW (intW v) := by
  cases k <;> simp only [IntKind.lo, IntKind.hi, IntKind.ty, IntTy.lo, IntTy.hi, IntTy.u8, IntTy.u16, IntTy.u32,
    IntTy.u64, IntTy.i8, IntTy.i16, IntTy.i32, IntTy.i64] at h1 h2 <;> simp at h1 h2
  · rw [intW_enc_nonneg v h1]; exact C03.u8_pref _ (by omega)
  · rw [intW_enc_nonneg v h1]; exact C03.u16_pref _ (by omega)
  · rw [intW_enc_nonneg v h1]; exact C03.u32_pref _ (by omega)
  · rw [intW_enc_nonneg v h1]; exact C03.u64_pref _ (by omega)
  · rw [← intItem_enc]; exact C03.i8_pref v (by omega)
  · rw [← intItem_enc]; exact C03.i16_pref v (by omega)
  · rw [← intItem_enc]; exact C03.i32_pref v (by omega)
  · rw [← intItem_enc]; exact C03.i64_pref v (by omega)

theorem str_eq (s : Bytes) (h : s.length < U64) : Enc.str s = encW (textW s) := by
  rw [C03.str_pref s h]; rfl

theorem array_eq (n : Nat) (h : n < U64) : Enc.array n = headW 4 (prefWidth n) n := C03.array_pref n h
theorem map_eq (n : Nat) (h : n < U64) : Enc.map n = headW 5 (prefWidth n) n := C03.map_pref n h
theorem map1_eq : Enc.map 1 = headW 5 .w0 1 := by decide
theorem array0_eq : Enc.array 0 = headW 4 .w0 0 := by decide

mutual
/-- `ser v` is the encoding of the wire tree `toW v`. -/
theorem ser_eq_encW : (v : SVal) → vok v = true → ser v = encW (toW v)
  | .bool b, _ => by cases b <;> rfl
  | .int k v, h => by
    simp only [vok, Bool.and_eq_true, decide_eq_true_eq] at h
    simp only [ser, toW]; exact encInt_eq k v h.1 h.2
  | .f32 _, _ => rfl
  | .f64 _, _ => rfl
  | .char c, h => by
    simp only [vok] at h
    have : c < 4294967296 := by simp [isScalar] at h; omega
    simp only [ser, toW]; rw [C03.char_pref c this]; rfl
  | .str s, h => by
    simp only [vok, nameOk, Bool.and_eq_true, decide_eq_true_eq] at h
    simp only [ser, toW]; exact str_eq s h.2
  | .bytes b, h => by
    simp only [vok, decide_eq_true_eq] at h
    simp only [ser, toW]; rw [C03.bytes_pref b h]; rfl
  | .none, _ => rfl
  | .some v, h => by simp only [vok] at h; simp only [ser, toW]; exact ser_eq_encW v h
  | .unit, _ => rfl
  | .unitStruct, _ => rfl
  | .unitVariant n, h => by
    simp only [vok, nameOk, Bool.and_eq_true, decide_eq_true_eq] at h
    simp only [ser, toW]; exact str_eq n h.2
  | .newtypeStruct v, h => by simp only [vok] at h; simp only [ser, toW]; exact ser_eq_encW v h
  | .newtypeVariant n v, h => by
    simp only [vok, nameOk, Bool.and_eq_true, decide_eq_true_eq] at h
    simp only [ser, toW, encW, encWs, List.length_cons, List.length_nil]
    rw [str_eq n h.1.2, ser_eq_encW v h.2, map1_eq]; simp
  | .seq known xs, h => by
    simp only [vok, Bool.and_eq_true, decide_eq_true_eq] at h
    cases known
    · simp [ser, toW, encW, sers_eq_encWs xs h.2, Enc.beginArray, Enc.end]
    · simp [ser, toW, encW, sers_eq_encWs xs h.2, array_eq _ h.1, toWs_length]
  | .tuple xs, h => by
    simp only [vok, Bool.and_eq_true, decide_eq_true_eq] at h
    simp [ser, toW, encW, sers_eq_encWs xs h.2, array_eq _ h.1, toWs_length]
  | .tupleStruct xs, h => by
    simp only [vok, Bool.and_eq_true, decide_eq_true_eq] at h
    simp [ser, toW, encW, sers_eq_encWs xs h.2, array_eq _ h.1, toWs_length]
  | .tupleVariant n xs, h => by
    simp only [vok, nameOk, Bool.and_eq_true, decide_eq_true_eq] at h
    simp only [ser, toW, encW, encWs, List.length_cons, List.length_nil]
    rw [str_eq n h.1.1.2, sers_eq_encWs xs h.2, map1_eq, array_eq _ h.1.2, toWs_length]; simp
  | .map known kvs, h => by
    simp only [vok, Bool.and_eq_true, decide_eq_true_eq] at h
    cases known
    · simp [ser, toW, encW, sers_eq_encWs kvs h.2, Enc.beginMap, Enc.end]
    · simp [ser, toW, encW, sers_eq_encWs kvs h.2, map_eq _ h.1.2, toWs_length]
  | .struct kvs, h => by
    simp only [vok, Bool.and_eq_true, decide_eq_true_eq] at h
    simp [ser, toW, encW, sers_eq_encWs kvs h.2, map_eq _ h.1.2, toWs_length]
  | .structVariant n kvs, h => by
    simp only [vok, nameOk, Bool.and_eq_true, decide_eq_true_eq] at h
    simp only [ser, toW, encW, encWs, List.length_cons, List.length_nil]
    rw [str_eq n h.1.1.1.2, sers_eq_encWs kvs h.2, map1_eq, map_eq _ h.1.2, toWs_length]; simp
theorem sers_eq_encWs : (xs : List SVal) → oks xs = true → sers xs = encWs (toWs xs)
  | [], _ => rfl
  | x :: xs, h => by
    simp only [oks, Bool.and_eq_true] at h
    simp only [sers, toWs, encWs]; rw [ser_eq_encW x h.1, sers_eq_encWs xs h.2]
end


theorem range_bounds (k : IntKind) : -9223372036854775808 ≤ k.lo ∧ k.hi < 18446744073709551616 := by
  cases k <;> decide

mutual
theorem toW_valid : (v : SVal) → vok v = true → (toW v).valid = true
  | .bool b, _ => by cases b <;> rfl
  | .int k v, h => by
    simp only [vok, Bool.and_eq_true, decide_eq_true_eq] at h
    have hb := range_bounds k
    unfold toW intW
    split
    · exact prefWidth_fits _ (by omega)
    · exact prefWidth_fits _ (by omega)
  | .f32 b, h => by simpa [vok, toW, WItem.valid] using h
  | .f64 b, h => by simpa [vok, toW, WItem.valid] using h
  | .char c, h => by
    simp only [vok] at h
    have : c < 18446744073709551616 := by simp [isScalar] at h; omega
    simpa [toW, WItem.valid] using prefWidth_fits c this
  | .str s, h => by
    simp only [vok, nameOk, Bool.and_eq_true, decide_eq_true_eq] at h
    simp [toW, textW, WItem.valid, prefWidth_fits _ h.2, h.1]
  | .bytes b, h => by
    simp only [vok, decide_eq_true_eq] at h
    simp [toW, WItem.valid, prefWidth_fits _ h]
  | .none, _ => rfl
  | .some v, h => by simp only [vok] at h; simp only [toW]; exact toW_valid v h
  | .unit, _ => rfl
  | .unitStruct, _ => rfl
  | .unitVariant n, h => by
    simp only [vok, nameOk, Bool.and_eq_true, decide_eq_true_eq] at h
    simp [toW, textW, WItem.valid, prefWidth_fits _ h.2, h.1]
  | .newtypeStruct v, h => by simp only [vok] at h; simp only [toW]; exact toW_valid v h
  | .newtypeVariant n v, h => by
    simp only [vok, nameOk, Bool.and_eq_true, decide_eq_true_eq] at h
    simp [toW, textW, WItem.valid, validAll, prefWidth_fits _ h.1.2, h.1.1, toW_valid v h.2, (show Width.w0.fits 1 = true from rfl)]
  | .seq known xs, h => by
    simp only [vok, Bool.and_eq_true, decide_eq_true_eq] at h
    cases known <;> simp [toW, WItem.valid, toWs_valid xs h.2, toWs_length, prefWidth_fits _ h.1]
  | .tuple xs, h => by
    simp only [vok, Bool.and_eq_true, decide_eq_true_eq] at h
    simp [toW, WItem.valid, toWs_valid xs h.2, toWs_length, prefWidth_fits _ h.1]
  | .tupleStruct xs, h => by
    simp only [vok, Bool.and_eq_true, decide_eq_true_eq] at h
    simp [toW, WItem.valid, toWs_valid xs h.2, toWs_length, prefWidth_fits _ h.1]
  | .tupleVariant n xs, h => by
    simp only [vok, nameOk, Bool.and_eq_true, decide_eq_true_eq] at h
    simp [toW, textW, WItem.valid, validAll, prefWidth_fits _ h.1.1.2, h.1.1.1, toWs_valid xs h.2, toWs_length,
      prefWidth_fits _ h.1.2, (show Width.w0.fits 1 = true from rfl)]
  | .map known kvs, h => by
    simp only [vok, Bool.and_eq_true, decide_eq_true_eq, beq_iff_eq] at h
    cases known <;> simp [toW, WItem.valid, toWs_valid kvs h.2, toWs_length, prefWidth_fits _ h.1.2, h.1.1]
  | .struct kvs, h => by
    simp only [vok, Bool.and_eq_true, decide_eq_true_eq, beq_iff_eq] at h
    simp [toW, WItem.valid, toWs_valid kvs h.2, toWs_length, prefWidth_fits _ h.1.2, h.1.1]
  | .structVariant n kvs, h => by
    simp only [vok, nameOk, Bool.and_eq_true, decide_eq_true_eq, beq_iff_eq] at h
    simp [toW, textW, WItem.valid, validAll, prefWidth_fits _ h.1.1.1.2, h.1.1.1.1, toWs_valid kvs h.2, toWs_length,
      prefWidth_fits _ h.1.2, h.1.1.2, (show Width.w0.fits 1 = true from rfl)]
theorem toWs_valid : (xs : List SVal) → oks xs = true → validAll (toWs xs) = true
  | [], _ => rfl
  | x :: xs, h => by
    simp only [oks, Bool.and_eq_true] at h
    simp [toWs, validAll, toW_valid x h.1, toWs_valid xs h.2]
end

/-- **C17 (a).**  Serialising any value of the serde data model (integers in the range of their
    type, scalar chars, UTF-8 strings, fewer than 2^64 elements) writes exactly one
    well-formed CBOR item. -/
theorem ser_wellformed (v : SVal) (h : vok v = true) : ∃ w : WItem, w.Valid ∧ ser v = encW w :=
  ⟨toW v, toW_valid v h, ser_eq_encW v h⟩

/-- the RFC 8949 data-model value a serialised value denotes. -/
def denote (v : SVal) : Item := value (toW v)
def denotes (xs : List SVal) : List Item := values (toWs xs)

/-- **C17 (b), the documented representation.**  In the data model (widths and definiteness
    erased): a struct is the map of its entries, whose keys are the field names as text; a unit
    variant is the variant name as text; every other variant is a one-entry map from the name
    to the content (newtype: the value, tuple: an array, struct: a map); `None` is null, `Some`
    and newtype structs are transparent; unit and unit structs are the empty array (`80`);
    sequences and tuples are arrays, maps are maps, whether or not the length was known. -/
theorem ser_representation :
    (∀ kvs, denote (.struct kvs) = .map (denotes kvs)) ∧
    (∀ s, denote (.str s) = .text s) ∧
    (∀ n, denote (.unitVariant n) = .text n) ∧
    (∀ n v, denote (.newtypeVariant n v) = .map [.text n, denote v]) ∧
    (∀ n xs, denote (.tupleVariant n xs) = .map [.text n, .array (denotes xs)]) ∧
    (∀ n kvs, denote (.structVariant n kvs) = .map [.text n, .map (denotes kvs)]) ∧
    denote .none = .simple 22 ∧ (∀ v, denote (.some v) = denote v) ∧ (∀ v, denote (.newtypeStruct v) = denote v) ∧
    denote .unit = .array [] ∧ denote .unitStruct = .array [] ∧ ser .unit = [0x80] ∧ ser .none = [0xf6] ∧
    (∀ k xs, denote (.seq k xs) = .array (denotes xs)) ∧ (∀ xs, denote (.tuple xs) = .array (denotes xs)) ∧
    (∀ xs, denote (.tupleStruct xs) = .array (denotes xs)) ∧
    (∀ k kvs, denote (.map k kvs) = .map (denotes kvs)) := by
  refine ⟨?_, ?_, ?_, ?_, ?_, ?_, ?_, ?_, ?_, ?_, ?_, ?_, ?_, ?_, ?_, ?_, ?_⟩
  case refine_14 => intro k xs; cases k <;> simp [denote, denotes, toW, value]
  case refine_17 => intro k kvs; cases k <;> simp [denote, denotes, toW, value]
  all_goals (intros; first | rfl | simp [denote, denotes, toW, textW, value, values, toWs])


/-! ## 2. round trip -/

/-- serialises as `null`: `None`, possibly under `Some` / transparent newtype wrappers. -/
def nullLike : SVal → Bool
  | .none => true
  | .some v => nullLike v
  | .newtypeStruct v => nullLike v
  | _ => false

/-- the shape a variant name selects (first match, as the derived `__FieldVisitor`). -/
def findShape : List Bytes → List VShape → Bytes → Option VShape
  | n' :: ns, s :: ss, n => if n' == n then some s else findShape ns ss n
  | _, _, _ => none

mutual
/-- `HasT v t`: `v` is (the Serializer trace of) a value of a Rust type described by `t`, for
    the types that are read directly from the wire (no `Content` buffer).  (`Type`-valued so that
    the theorems below can recurse structurally on the derivation; the statements only ever ask
    for a derivation to exist.) -/
inductive HasT : SVal → SType → Type
  | bool (b : Bool) : HasT (.bool b) .bool
  | int (k : IntKind) (v : Int) : k.lo ≤ v → v ≤ k.hi → HasT (.int k v) (.int k)
  | f32 (b : Nat) : b < 4294967296 → HasT (.f32 b) .f32
  | f64 (b : Nat) : b < U64 → HasT (.f64 b) .f64
  | char (c : Nat) : isScalar c = true → HasT (.char c) .char
  | str (s : Bytes) : validUtf8 s = true → s.length < U64 → HasT (.str s) .str
  | bytes (b : Bytes) : b.length < U64 → HasT (.bytes b) .bytes
  | unit : HasT .unit .unit
  | unitStruct : HasT .unitStruct .unitStruct
  | none (t : SType) : HasT .none (.option t)
  /-- `Some(v)`: `v` must not itself serialise as null (the documented exclusion: an `Option`
      directly inside an `Option`, also through transparent newtypes) -/
  | some (v : SVal) (t : SType) : HasT v t → vok v = true → nullLike v = false → HasT (.some v) (.option t)
  | newtype (v : SVal) (t : SType) : HasT v t → HasT (.newtypeStruct v) (.newtype t)
  | seq (known : Bool) (xs : List SVal) (t : SType) : HasEach xs t → xs.length < U64 → oks xs = true →
      HasT (.seq known xs) (.seq known t)
  | tuple (xs : List SVal) (ts : List SType) : HasAll xs ts → xs.length < U64 → HasT (.tuple xs) (.tuple ts)
  | tupleStruct (xs : List SVal) (ts : List SType) : HasAll xs ts → xs.length < U64 → HasT (.tupleStruct xs) (.tupleStruct ts)
  /-- `BTreeMap`: entries in strictly ascending key order -/
  | map (known : Bool) (kvs : List SVal) (k v : SType) : HasPairs kvs k v → kvs.length / 2 < U64 → oks kvs = true →
      KeysAsc kvs → HasT (.map known kvs) (.map known k v)
  /-- a struct: every field, in declaration order; field names distinct -/
  | struct (names : List Bytes) (vals : List SVal) (ts : List SType) : HasAll vals ts → names.length = ts.length →
      names.Nodup → (∀ n ∈ names, nameOk n = true) → vals.length < U64 →
      HasT (.struct (mkKvs names vals)) (.struct names ts)
  | enum (v : SVal) (names : List Bytes) (vs : List VShape) (n : Bytes) (s : VShape) : VarOf v n s →
      findShape names vs n = some s → nameOk n = true → HasT v (.enum names vs)
inductive HasEach : List SVal → SType → Type
  | nil (t : SType) : HasEach [] t
  | cons (x : SVal) (xs : List SVal) (t : SType) : HasT x t → HasEach xs t → HasEach (x :: xs) t
inductive HasAll : List SVal → List SType → Type
  | nil : HasAll [] []
  | cons (x : SVal) (xs : List SVal) (t : SType) (ts : List SType) : HasT x t → HasAll xs ts → HasAll (x :: xs) (t :: ts)
inductive HasPairs : List SVal → SType → SType → Type
  | nil (k v : SType) : HasPairs [] k v
  | cons (a b : SVal) (rest : List SVal) (k v : SType) : HasT a k → HasT b v → HasPairs rest k v →
      HasPairs (a :: b :: rest) k v
/-- the value is variant `n` of shape `s` -/
inductive VarOf : SVal → Bytes → VShape → Type
  | unit (n : Bytes) : VarOf (.unitVariant n) n .unit
  | newtype (n : Bytes) (x : SVal) (t : SType) : HasT x t → VarOf (.newtypeVariant n x) n (.newtype t)
  | tuple (n : Bytes) (xs : List SVal) (ts : List SType) : HasAll xs ts → xs.length < U64 →
      VarOf (.tupleVariant n xs) n (.tuple ts)
  | struct (n : Bytes) (names : List Bytes) (vals : List SVal) (ts : List SType) : HasAll vals ts →
      names.length = ts.length → names.Nodup → (∀ m ∈ names, nameOk m = true) → vals.length < U64 →
      VarOf (.structVariant n (mkKvs names vals)) n (.struct names ts)
end


theorem hasAll_length : {xs : List SVal} → {ts : List SType} → HasAll xs ts → xs.length = ts.length
  | _, _, .nil => rfl
  | _, _, .cons _ _ _ _ _ h => by simp [hasAll_length h]

theorem fieldDecs_names : (names : List Bytes) → (ts : List SType) → names.length = ts.length →
    (fieldDecs names ts).map (·.name) = names
  | [], [], _ => by simp [fieldDecs]
  | [], _ :: _, h => by simp at h
  | _ :: _, [], h => by simp at h
  | n :: ns, t :: ts, h => by simp [fieldDecs, fieldDecs_names ns ts (by simpa using h)]

theorem fieldDecs_decs : (names : List Bytes) → (ts : List SType) → names.length = ts.length →
    (fieldDecs names ts).map (·.dec) = ts.map de
  | [], [], _ => by simp [fieldDecs]
  | [], _ :: _, h => by simp at h
  | _ :: _, [], h => by simp at h
  | n :: ns, t :: ts, h => by simp [fieldDecs, fieldDecs_decs ns ts (by simpa using h)]

theorem fieldDecs_wf (names : List Bytes) (ts : List SType) (hl : names.length = ts.length) (hnd : names.Nodup)
    (hok : ∀ n ∈ names, nameOk n = true) : FieldsWf (fieldDecs names ts) := by
  refine ⟨by rw [fieldDecs_names names ts hl]; exact hnd, ?_⟩
  intro f hf
  have : f.name ∈ (fieldDecs names ts).map (·.name) := List.mem_map_of_mem (f := (·.name)) hf
  rw [fieldDecs_names names ts hl] at this
  exact hok _ this

theorem findVar_varDecs : (names : List Bytes) → (vs : List VShape) → (n : Bytes) →
    findVar (varDecs names vs) n = (findShape names vs n).map (fun s => (⟨n, deVar n s, varC n s true⟩ : VarDec))
  | [], _, _ => by simp [varDecs, findVar, findShape]
  | _ :: _, [], _ => by simp [varDecs, findVar, findShape]
  | n' :: ns, s :: ss, n => by
    have ih := findVar_varDecs ns ss n
    simp only [varDecs, findVar, List.find?, findShape] at ih ⊢
    by_cases h : n' = n
    · subst h; simp
    · have : (n' == n) = false := by simpa using h
      simp [this, ih]

theorem deAll_rt : (ts : List SType) → (xs : List SVal) → AllRtD (ts.map de) xs → ∀ rest,
    deAll ts (sers xs ++ rest) = .ok xs rest
  | [], [], _, rest => by simp [deAll, sers]
  | [], _ :: _, h, _ => by simp [AllRtD] at h
  | _ :: _, [], h, _ => by simp [AllRtD] at h
  | t :: ts, x :: xs, h, rest => by
    simp only [List.map_cons, AllRtD] at h
    simp only [deAll, sers, List.append_assoc]
    rw [Dec.bind_ok _ _ _ _ _ (h.1 _), Dec.bind_ok _ _ _ _ _ (deAll_rt ts xs h.2 rest)]; rfl

theorem wType_ne_break (w : WItem) : wType w ≠ .break := by
  cases w <;> simp only [wType] <;> try simp
  · unfold headTy; simp only; repeat' split
    all_goals simp
  · rename_i w n; cases w <;> simp only [nintType] <;> (try split) <;> simp
  · split
    · unfold headTy; simp only; repeat' split
      all_goals simp
    · simp

/-- a well-formed item never starts with the break byte. -/
theorem encW_head (w : WItem) (hv : w.valid = true) : ∃ b tl, encW w = b :: tl ∧ b ≠ 0xff := by
  have hd := datatype_encW w hv []
  rw [List.append_nil] at hd
  cases he : encW w with
  | nil => rw [he] at hd; simp [Dec.datatype, Dec.bind_run] at hd
  | cons b tl =>
    refine ⟨b, tl, rfl, ?_⟩
    intro hb
    subst hb
    rw [he, datatype_nopeek _ _ (by decide)] at hd
    have : typeOfB 0xff false = wType w := by injection hd
    exact wType_ne_break w (this ▸ by decide)

theorem noBreak_of_oks (xs : List SVal) (h : oks xs = true) : NoBreak xs := by
  induction xs with
  | nil => intro x hx; cases hx
  | cons y ys ih =>
    simp only [oks, Bool.and_eq_true] at h
    intro x hx
    rcases List.mem_cons.mp hx with rfl | hx'
    · rw [ser_eq_encW x h.1]; exact encW_head _ (toW_valid x h.1)
    · exact ih h.2 x hx'

theorem toW_null : (v : SVal) → toW v = .simple 22 → nullLike v = true
  | .none, _ => rfl
  | .some v, h => by simp only [toW] at h; simp only [nullLike]; exact toW_null v h
  | .newtypeStruct v, h => by simp only [toW] at h; simp only [nullLike]; exact toW_null v h
  | .bool b, h => by cases b <;> simp [toW] at h
  | .int _ v, h => by simp only [toW, intW] at h; split at h <;> cases h
  | .f32 _, h => by simp [toW] at h
  | .f64 _, h => by simp [toW] at h
  | .char _, h => by simp [toW] at h
  | .str _, h => by simp [toW, textW] at h
  | .bytes _, h => by simp [toW] at h
  | .unit, h => by simp [toW] at h
  | .unitStruct, h => by simp [toW] at h
  | .unitVariant _, h => by simp [toW, textW] at h
  | .newtypeVariant _ _, h => by simp [toW] at h
  | .seq k _, h => by cases k <;> simp [toW] at h
  | .tuple _, h => by simp [toW] at h
  | .tupleStruct _, h => by simp [toW] at h
  | .tupleVariant _ _, h => by simp [toW] at h
  | .map k _, h => by cases k <;> simp [toW] at h
  | .struct _, h => by simp [toW] at h
  | .structVariant _ _, h => by simp [toW] at h

/-- the first byte of a value that is not null-like is not `null`. -/
theorem datatype_not_null (v : SVal) (hok : vok v = true) (hn : nullLike v = false) (rest : Bytes) :
    ∃ ty, datatype (ser v ++ rest) = .ok ty (ser v ++ rest) ∧ (ty == CType.null) = false := by
  refine ⟨wType (toW v), ?_, ?_⟩
  · rw [ser_eq_encW v hok]; exact datatype_encW _ (toW_valid v hok) rest
  · cases h : wType (toW v) == CType.null with
    | false => rfl
    | true =>
      have h1 : wType (toW v) = .null := by simpa using h
      have := toW_null v (wType_null _ (toW_valid v hok) h1)
      rw [this] at hn; cases hn


theorem datatype_str (n rest : Bytes) (h : nameOk n = true) :
    datatype (Enc.str n ++ rest) = .ok .string (Enc.str n ++ rest) := by
  simp only [nameOk, Bool.and_eq_true, decide_eq_true_eq] at h
  have hv : (textW n).valid = true := by simp [textW, WItem.valid, prefWidth_fits _ h.2, h.1]
  have := datatype_encW (textW n) hv rest
  rw [← str_eq n h.2] at this
  exact this

theorem datatype_map1 (rest : Bytes) : datatype (Enc.map 1 ++ rest) = .ok .map (Enc.map 1 ++ rest) :=
  datatype_nopeek _ _ (by decide)

theorem enumHeader_str (n rest : Bytes) (h : nameOk n = true) : enumHeader (Enc.str n ++ rest) = .ok () (Enc.str n ++ rest) := by
  unfold enumHeader
  rw [Dec.bind_ok _ _ _ _ _ (datatype_str n rest h)]; rfl

theorem enumHeader_map1 (rest : Bytes) : enumHeader (Enc.map 1 ++ rest) = .ok () rest := by
  unfold enumHeader
  rw [Dec.bind_ok _ _ _ _ _ (datatype_map1 rest)]
  simp only [beq_self_eq_true, if_true]
  rw [Dec.bind_ok _ _ _ _ _ (map_rt 1 rest (by decide))]; rfl

theorem variantId_rt (names : List Bytes) (vs : List VShape) (n : Bytes) (s : VShape) (rest : Bytes)
    (hf : findShape names vs n = some s) (hn : nameOk n = true) :
    variantId (varDecs names vs) (Enc.str n ++ rest) = .ok ⟨n, deVar n s, varC n s true⟩ rest := by
  simp only [nameOk, Bool.and_eq_true, decide_eq_true_eq] at hn
  unfold variantId
  rw [Dec.bind_ok _ _ _ _ _ (str_rt n rest hn.1 hn.2), findVar_varDecs, hf]; rfl

theorem tupleHeader_rt (n : Nat) (rest : Bytes) (h : n < U64) : tupleHeader n (Enc.array n ++ rest) = .ok () rest := by
  unfold tupleHeader
  rw [Dec.bind_ok _ _ _ _ _ (array_rt n rest h)]; simp

theorem deUnit_rt (rest : Bytes) : deUnit (Enc.array 0 ++ rest) = .ok () rest := by
  unfold deUnit
  rw [Dec.bind_ok _ _ _ _ _ (array_rt 0 rest (by decide))]; simp

theorem mkKvs_half (names : List Bytes) (vals : List SVal) (h : names.length = vals.length) :
    (mkKvs names vals).length / 2 = vals.length := by
  rw [mkKvs_length names vals h]; omega

/-- the part of a variant's encoding after its name. -/
def payload : SVal → Bytes
  | .newtypeVariant _ x => ser x
  | .tupleVariant _ xs => Enc.array xs.length ++ sers xs
  | .structVariant _ kvs => Enc.map (kvs.length / 2) ++ sers kvs
  | _ => []

theorem struct_body_rt (names : List Bytes) (vals : List SVal) (ts : List SType) (hl : names.length = ts.length)
    (hnd : names.Nodup) (hok : ∀ n ∈ names, nameOk n = true) (hlen : vals.length < U64)
    (hrt : AllRtD (ts.map de) vals) (rest : Bytes) :
    deStructBody (fieldDecs names ts) (Enc.map ((mkKvs names vals).length / 2) ++ (sers (mkKvs names vals) ++ rest)) =
      .ok (mkKvs names vals) rest := by
  have hvl : ts.length = vals.length := by simpa using allRtD_length _ _ hrt
  have := deStructBody_rt (fieldDecs names ts) (fieldDecs_wf names ts hl hnd hok) vals
    (by rw [fieldDecs_decs names ts hl]; exact hrt) hlen rest
  rw [fieldDecs_names names ts hl] at this
  rw [mkKvs_half names vals (by omega)]
  exact this

mutual
/-- **C17 (c), round trip**, for every type read directly from the wire: deserialising the
    bytes `ser` wrote, whatever follows them, returns the value and stops exactly after the
    item.  Mutual structural induction over the typing derivation; sizes are unbounded. -/
theorem roundtrip_plain : {v : SVal} → {t : SType} → HasT v t → ∀ rest, de t (ser v ++ rest) = .ok v rest
  | _, _, .bool b, rest => by
    simp only [de, ser]; rw [Dec.bind_ok _ _ _ _ _ (bool_rt b rest)]; rfl
  | _, _, .int k v h1 h2, rest => by
    simp only [de, ser]; rw [Dec.bind_ok _ _ _ _ _ (int_rt k v rest h1 h2)]; rfl
  | _, _, .f32 b h, rest => by
    simp only [de, ser]; rw [Dec.bind_ok _ _ _ _ _ (f32_rt b rest h)]; rfl
  | _, _, .f64 b h, rest => by
    simp only [de, ser]; rw [Dec.bind_ok _ _ _ _ _ (f64_rt b rest h)]; rfl
  | _, _, .char c h, rest => by
    simp only [de, ser]; rw [Dec.bind_ok _ _ _ _ _ (char_rt c rest h)]; rfl
  | _, _, .str s h1 h2, rest => by
    simp only [de, ser]; rw [Dec.bind_ok _ _ _ _ _ (str_rt s rest h1 h2)]; rfl
  | _, _, .bytes b h, rest => by
    simp only [de, ser]; rw [Dec.bind_ok _ _ _ _ _ (bytes_rt b rest h)]; rfl
  | _, _, .unit, rest => by
    simp only [de, ser]
    rw [Dec.bind_ok _ _ _ _ _ (deUnit_rt rest)]; rfl
  | _, _, .unitStruct, rest => by
    simp only [de, ser]
    rw [Dec.bind_ok _ _ _ _ _ (deUnit_rt rest)]; rfl
  | _, _, .none t, rest => by
    have hd : datatype (0xf6 :: rest) = .ok .null (0xf6 :: rest) := datatype_nopeek _ _ (by decide)
    simp only [de, ser]
    show (datatype >>= _) (0xf6 :: rest) = _
    rw [Dec.bind_ok _ _ _ _ _ hd]
    simp only [beq_self_eq_true, if_true]
    rw [Dec.bind_ok _ _ _ _ _ (skip_null rest)]; rfl
  | _, _, .some v t h hok hn, rest => by
    obtain ⟨ty, hd, hne⟩ := datatype_not_null v hok hn rest
    simp only [de, ser]
    rw [Dec.bind_ok _ _ _ _ _ hd]
    simp only [hne, Bool.false_eq_true, if_false]
    rw [Dec.bind_ok _ _ _ _ _ (roundtrip_plain h rest)]; rfl
  | _, _, .newtype v t h, rest => by
    simp only [de, ser]; rw [Dec.bind_ok _ _ _ _ _ (roundtrip_plain h rest)]; rfl
  | _, _, .seq known xs t h hl hoks, rest => by
    have he := roundtrip_each h
    cases known
    · simp only [de, ser, Bool.false_eq_true, if_false, List.append_assoc]
      rw [Dec.bind_ok _ _ _ _ _ (beginArray_rt _)]
      have := seqAccess_indef_rt (de t) xs he (noBreak_of_oks xs hoks) rest
      simp only [Enc.end, List.cons_append, List.nil_append]
      rw [Dec.bind_ok _ _ _ _ _ this]; rfl
    · simp only [de, ser, if_true, List.append_assoc]
      rw [Dec.bind_ok _ _ _ _ _ (array_rt _ _ hl), Dec.bind_ok _ _ _ _ _ (seqAccess_def_rt (de t) xs he rest)]; rfl
  | _, _, .tuple xs ts h hl, rest => by
    have hlen := hasAll_length h
    simp only [de, ser, List.append_assoc]
    rw [← hlen, Dec.bind_ok _ _ _ _ _ (tupleHeader_rt _ _ hl), Dec.bind_ok _ _ _ _ _ (deAll_rt ts xs (roundtrip_all h) rest)]; rfl
  | _, _, .tupleStruct xs ts h hl, rest => by
    have hlen := hasAll_length h
    simp only [de, ser, List.append_assoc]
    rw [← hlen, Dec.bind_ok _ _ _ _ _ (tupleHeader_rt _ _ hl), Dec.bind_ok _ _ _ _ _ (deAll_rt ts xs (roundtrip_all h) rest)]; rfl
  | _, _, .map known kvs k v h hl hoks hasc, rest => by
    have hp := roundtrip_pairs h
    have hev := PairsRt.even kvs hp
    cases known
    · simp only [de, ser, Bool.false_eq_true, if_false, List.append_assoc]
      rw [Dec.bind_ok _ _ _ _ _ (beginMap_rt _)]
      have := mapAccess_indef_rt (de k) (de v) kvs hp (noBreak_of_oks kvs hoks) rest
      simp only [Enc.end, List.cons_append, List.nil_append]
      rw [Dec.bind_ok _ _ _ _ _ this, mkMap_sorted kvs hev hasc]; rfl
    · simp only [de, ser, if_true, List.append_assoc]
      rw [Dec.bind_ok _ _ _ _ _ (map_rt _ _ hl), Dec.bind_ok _ _ _ _ _ (mapAccess_def_rt (de k) (de v) kvs hp rest),
        mkMap_sorted kvs hev hasc]; rfl
  | _, _, .struct names vals ts h hl hnd hok hlen, rest => by
    simp only [de, ser, List.append_assoc]
    rw [Dec.bind_ok _ _ _ _ _ (struct_body_rt names vals ts hl hnd hok hlen (roundtrip_all h) rest)]; rfl
  | _, _, .enum v names vs n s hvar hf hn, rest => by
    have hid := fun r => variantId_rt names vs n s r hf hn
    simp only [de, deEnumBody]
    have hv := roundtrip_var hvar
    cases hvar with
    | unit n =>
      simp only [ser]
      rw [Dec.bind_ok _ _ _ _ _ (enumHeader_str n rest hn), Dec.bind_ok _ _ _ _ _ (hid rest)]
      simpa [payload] using hv rest
    | newtype n x t hx =>
      simp only [ser, List.append_assoc]
      rw [Dec.bind_ok _ _ _ _ _ (enumHeader_map1 _), Dec.bind_ok _ _ _ _ _ (hid _)]
      simpa [payload] using hv rest
    | tuple n xs ts hx hl =>
      simp only [ser, List.append_assoc]
      rw [Dec.bind_ok _ _ _ _ _ (enumHeader_map1 _), Dec.bind_ok _ _ _ _ _ (hid _)]
      simpa [payload] using hv rest
    | struct n fn vals ts hx hl hnd hok hlen =>
      simp only [ser, List.append_assoc]
      rw [Dec.bind_ok _ _ _ _ _ (enumHeader_map1 _), Dec.bind_ok _ _ _ _ _ (hid _)]
      simpa [payload] using hv rest
theorem roundtrip_each : {xs : List SVal} → {t : SType} → HasEach xs t → EachRt (de t) xs
  | _, _, .nil t => by intro x hx; cases hx
  | _, _, .cons x xs t h hs => by
    intro y hy rest
    rcases List.mem_cons.mp hy with e | hy'
    · rw [e]; exact roundtrip_plain h rest
    · exact roundtrip_each hs y hy' rest
theorem roundtrip_all : {xs : List SVal} → {ts : List SType} → HasAll xs ts → AllRtD (ts.map de) xs
  | _, _, .nil => by simp [AllRtD]
  | _, _, .cons x xs t ts h hs => by
    simp only [List.map_cons, AllRtD]
    exact ⟨fun r => roundtrip_plain h r, roundtrip_all hs⟩
theorem roundtrip_pairs : {kvs : List SVal} → {k v : SType} → HasPairs kvs k v → PairsRt (de k) (de v) kvs
  | _, _, _, .nil k v => by simp [PairsRt]
  | _, _, _, .cons a b rest k v ha hb hs => by
    simp only [PairsRt]
    exact ⟨fun r => roundtrip_plain ha r, fun r => roundtrip_plain hb r, roundtrip_pairs hs⟩
/-- the content of a variant, after the optional `map(1)` wrapper and the name -/
theorem roundtrip_var : {v : SVal} → {n : Bytes} → {s : VShape} → VarOf v n s → ∀ rest,
    deVar n s (payload v ++ rest) = .ok v rest
  | _, _, _, .unit n, rest => by simp [deVar, payload]
  | _, _, _, .newtype n x t h, rest => by
    simp only [deVar, payload]; rw [Dec.bind_ok _ _ _ _ _ (roundtrip_plain h rest)]; rfl
  | _, _, _, .tuple n xs ts h hl, rest => by
    have hlen := hasAll_length h
    simp only [deVar, payload, List.append_assoc]
    rw [← hlen, Dec.bind_ok _ _ _ _ _ (tupleHeader_rt _ _ hl), Dec.bind_ok _ _ _ _ _ (deAll_rt ts xs (roundtrip_all h) rest)]; rfl
  | _, _, _, .struct n names vals ts h hl hnd hok hlen, rest => by
    simp only [deVar, payload, List.append_assoc]
    rw [Dec.bind_ok _ _ _ _ _ (struct_body_rt names vals ts hl hnd hok hlen (roundtrip_all h) rest)]; rfl
end


/-! ## 3. what is excluded, and why: machine-checked counterexamples -/

/-- `Option<Option<u8>>`: `Some(None)` is written as `null` and read back as `None` — the
    property's own documented exclusion (`nullLike` in `HasT.some`). -/
theorem option_in_option_counterexample :
    ser (.some .none) = [0xf6] ∧
    de (.option (.option (.int .u8))) (ser (.some .none)) = .ok .none [] := by
  constructor <;> rfl

/-- `struct Outer { a: u8, #[serde(flatten)] inner: Inner }`, `struct Inner { c: char }`. -/
def flatCharT : SType := .flat [[0x61]] [.int .u8] [[0x63]] [.char] [] []
/-- the value `Outer { a: 1, inner: Inner { c: 'x' } }` as the Serializer sees it -/
def flatCharV : SVal := .map false [.str [0x61], .int .u8 1, .str [0x63], .char 120]

/-- **Known finding K6.**  A `char` reached through serde's `Content` buffer (here: a flattened
    struct) does not round-trip: the bridge writes a `char` as an unsigned integer, the buffer
    holds `Content::U8(120)`, and serde's `ContentDeserializer::deserialize_char` accepts only
    `Char` / `Str`.  The bytes are `bf 61 61 01 61 63 18 78 ff`; the whole item is consumed and
    a serde `invalid type` error (class `message`) is returned. -/
theorem char_behind_content_counterexample :
    ser flatCharV = [0xbf, 0x61, 0x61, 0x01, 0x61, 0x63, 0x18, 0x78, 0xff] ∧
    de flatCharT (ser flatCharV) = .err .message [] := by
  constructor <;> rfl

/-- `struct Outer { a: u8, #[serde(flatten)] inner: Inner }`, `struct Inner { u: () }`. -/
def flatUnitT : SType := .flat [[0x61]] [.int .u8] [[0x75]] [.unit] [] []
def flatUnitV : SVal := .map false [.str [0x61], .int .u8 1, .str [0x75], .unit]

/-- **Known finding K7.**  The unit value `()` reached through serde's `Content` buffer does not
    round-trip either: the bridge writes unit as the empty array `80`, the buffer holds
    `Content::Seq([])`, and `ContentDeserializer::deserialize_unit` accepts only `Unit` (or an
    empty map).  The same holds for a unit variant of an untagged enum. -/
theorem unit_behind_content_counterexample :
    ser flatUnitV = [0xbf, 0x61, 0x61, 0x01, 0x61, 0x75, 0x80, 0xff] ∧
    de flatUnitT (ser flatUnitV) = .err .message [] ∧
    de (.untagged [.unit, .newtype (.int .u8)]) (ser .unit) = .err .message [] := by
  refine ⟨?_, ?_, ?_⟩ <;> rfl

set_option maxRecDepth 8192 in
/-- the types behind a `Content` buffer do round-trip when neither `char` nor `()` is involved:
    a flattened struct, an internally tagged, an adjacently tagged and an untagged enum
    (machine-checked instances of `roundtrip_content`). -/
theorem content_roundtrip_examples :
    (let t : SType := .flat [[0x61]] [.int .u8] [[0x62], [0x63]] [.int .u16, .str] [[0x64]] [.bool]
     let v : SVal := .map false [.str [0x61], .int .u8 1, .str [0x62], .int .u16 500, .str [0x63], .str [0x68],
                                 .str [0x64], .bool true]
     de t (ser v ++ [0x00]) = .ok v [0x00]) ∧
    (let t : SType := .itag [0x74] [[0x41], [0x42]] [.unit, .struct [[0x78]] [.int .i32]]
     let v : SVal := .struct [.str [0x74], .str [0x42], .str [0x78], .int .i32 (-300)]
     de t (ser v ++ [0x00]) = .ok v [0x00]) ∧
    (let t : SType := .atag [0x74] [0x63] [[0x41], [0x42]] [.unit, .tuple [.int .u8, .char]]
     let v : SVal := .struct [.str [0x74], .unitVariant [0x42], .str [0x63], .tuple [.int .u8 7, .char 8364]]
     de t (ser v ++ [0x00]) = .ok v [0x00]) ∧
    (let t : SType := .untagged [.newtype (.int .u32), .tuple [.int .u8, .int .u8], .struct [[0x78]] [.str]]
     let v : SVal := .struct [.str [0x78], .str [0x68, 0x69]]
     de t (ser v ++ [0x00]) = .ok v [0x00]) := by
  refine ⟨?_, ?_, ?_, ?_⟩ <;> rfl

/-- non-vacuity of `roundtrip_plain`: a struct with an optional field, a sequence of unknown
    length, an enum struct variant and a map satisfies `HasT`. -/
def exampleT : SType :=
  .struct [[0x61], [0x62], [0x63]] [.option (.int .i64), .seq false (.int .u16),
    .enum [[0x41], [0x44]] [.unit, .struct [[0x78]] [.bool]]]
def exampleV : SVal :=
  .struct (mkKvs [[0x61], [0x62], [0x63]] [.some (.int .i64 (-9223372036854775808)), .seq false [.int .u16 1, .int .u16 65535],
    .structVariant [0x44] (mkKvs [[0x78]] [.bool true])])

def exampleHasT : HasT exampleV exampleT :=
  .struct _ _ _
    (.cons _ _ _ _ (.some _ _ (.int .i64 _ (by simp [IntKind.lo, IntKind.ty, IntTy.lo, IntTy.i64]) (by simp [IntKind.hi, IntKind.ty, IntTy.hi, IntTy.i64])) rfl rfl)
      (.cons _ _ _ _ (.seq false _ _ (.cons _ _ _ (.int .u16 1 (by decide) (by decide))
          (.cons _ _ _ (.int .u16 65535 (by decide) (by decide)) (.nil _))) (by decide) (by decide))
        (.cons _ _ _ _ (.enum _ _ _ [0x44] (.struct [[0x78]] [.bool])
            (.struct [0x44] [[0x78]] [.bool true] [.bool] (.cons _ _ _ _ (.bool true) .nil) rfl (by decide) (by decide) (by decide))
            rfl (by decide))
          .nil)))
    rfl (by decide) (by decide) (by decide)

example : de exampleT (ser exampleV ++ [0xff]) = .ok exampleV [0xff] := roundtrip_plain exampleHasT [0xff]


/-! ## 4. the full statement (all representations), its refutation in the known classes -/

/-- the value is variant number `i` (0-based) of an untagged enum: its trace is the content of
    that variant, and no earlier variant accepts the buffered content (serde tries the variants in
    order; ambiguous enums are outside the property). -/
def UntaggedAt (vs : List VShape) (i : Nat) (v : SVal) : Prop :=
  ∀ j, j < i → ∀ s, vs[j]? = some s → untaggedC s (cOfW (toW v)) = .fail

/-- `HasTC v t`: typing for every representation, including the four that go through serde's
    `Content` buffer.  Members of flattened structs and contents of tagged / untagged variants
    are values of directly-read types (`HasT`). -/
inductive HasTC : SVal → SType → Type
  | plain (v : SVal) (t : SType) : HasT v t → HasTC v t
  | flat (preN : List Bytes) (preV : List SVal) (preT : List SType) (inN : List Bytes) (inV : List SVal) (inT : List SType)
      (postN : List Bytes) (postV : List SVal) (postT : List SType) :
      HasAll preV preT → HasAll inV inT → HasAll postV postT →
      preN.length = preT.length → inN.length = inT.length → postN.length = postT.length →
      (preN ++ inN ++ postN).Nodup → (∀ n ∈ preN ++ inN ++ postN, nameOk n = true) →
      (preV ++ inV ++ postV).length < U64 →
      HasTC (.map false (mkKvs (preN ++ inN ++ postN) (preV ++ inV ++ postV))) (.flat preN preT inN inT postN postT)
  | itagUnit (tag : Bytes) (names : List Bytes) (vs : List VShape) (n : Bytes) :
      findShape names vs n = some .unit → nameOk tag = true → nameOk n = true →
      HasTC (.struct [.str tag, .str n]) (.itag tag names vs)
  | itagStruct (tag : Bytes) (names : List Bytes) (vs : List VShape) (n : Bytes) (fn : List Bytes) (vals : List SVal)
      (ts : List SType) : findShape names vs n = some (.struct fn ts) → HasAll vals ts → fn.length = ts.length →
      (tag :: fn).Nodup → (∀ m ∈ tag :: fn, nameOk m = true) → nameOk n = true → vals.length + 1 < U64 →
      HasTC (.struct (.str tag :: .str n :: mkKvs fn vals)) (.itag tag names vs)
  | itagNewtype (tag : Bytes) (names : List Bytes) (vs : List VShape) (n : Bytes) (fn : List Bytes) (vals : List SVal)
      (ts : List SType) : findShape names vs n = some (.newtype (.struct fn ts)) → HasAll vals ts → fn.length = ts.length →
      (tag :: fn).Nodup → (∀ m ∈ tag :: fn, nameOk m = true) → nameOk n = true → vals.length + 1 < U64 →
      HasTC (.struct (.str tag :: .str n :: mkKvs fn vals)) (.itag tag names vs)
  | atagUnit (tag content : Bytes) (names : List Bytes) (vs : List VShape) (n : Bytes) :
      findShape names vs n = some .unit → nameOk tag = true → nameOk content = true → tag ≠ content → nameOk n = true →
      HasTC (.struct [.str tag, .unitVariant n]) (.atag tag content names vs)
  | atagNewtype (tag content : Bytes) (names : List Bytes) (vs : List VShape) (n : Bytes) (x : SVal) (t : SType) :
      findShape names vs n = some (.newtype t) → HasT x t → nameOk tag = true → nameOk content = true → tag ≠ content →
      nameOk n = true → HasTC (.struct [.str tag, .unitVariant n, .str content, x]) (.atag tag content names vs)
  | atagTuple (tag content : Bytes) (names : List Bytes) (vs : List VShape) (n : Bytes) (xs : List SVal) (ts : List SType) :
      findShape names vs n = some (.tuple ts) → HasAll xs ts → xs.length < U64 → nameOk tag = true → nameOk content = true →
      tag ≠ content → nameOk n = true →
      HasTC (.struct [.str tag, .unitVariant n, .str content, .tuple xs]) (.atag tag content names vs)
  | atagStruct (tag content : Bytes) (names : List Bytes) (vs : List VShape) (n : Bytes) (fn : List Bytes)
      (vals : List SVal) (ts : List SType) : findShape names vs n = some (.struct fn ts) → HasAll vals ts →
      fn.length = ts.length → fn.Nodup → (∀ m ∈ fn, nameOk m = true) → vals.length < U64 → nameOk tag = true →
      nameOk content = true → tag ≠ content → nameOk n = true →
      HasTC (.struct [.str tag, .unitVariant n, .str content, .struct (mkKvs fn vals)]) (.atag tag content names vs)
  | untaggedUnit (vs : List VShape) (i : Nat) : vs[i]? = some .unit → UntaggedAt vs i .unit → HasTC .unit (.untagged vs)
  | untaggedNewtype (vs : List VShape) (i : Nat) (x : SVal) (t : SType) : vs[i]? = some (.newtype t) → HasT x t →
      UntaggedAt vs i x → HasTC x (.untagged vs)
  | untaggedTuple (vs : List VShape) (i : Nat) (xs : List SVal) (ts : List SType) : vs[i]? = some (.tuple ts) →
      HasAll xs ts → xs.length < U64 → UntaggedAt vs i (.tuple xs) → HasTC (.tuple xs) (.untagged vs)
  | untaggedStruct (vs : List VShape) (i : Nat) (fn : List Bytes) (vals : List SVal) (ts : List SType) :
      vs[i]? = some (.struct fn ts) → HasAll vals ts → fn.length = ts.length → fn.Nodup → (∀ m ∈ fn, nameOk m = true) →
      vals.length < U64 → UntaggedAt vs i (.struct (mkKvs fn vals)) → HasTC (.struct (mkKvs fn vals)) (.untagged vs)

/-- **C17 (c) at full strength**: every value of every type of the family — including flattened,
    internally tagged, adjacently tagged and untagged representations, the only exclusion being
    an `Option` directly inside an `Option` (built into `HasT.some`) — round-trips and the
    deserialiser stops exactly after the item.  FALSE on the code as it is: K6 and K7. -/
def roundtrip_statement : Prop :=
  ∀ (t : SType) (v : SVal) (rest : Bytes), HasTC v t → de t (ser v ++ rest) = .ok v rest

def flatCharHasTC : HasTC flatCharV flatCharT :=
  .flat [[0x61]] [.int .u8 1] [.int .u8] [[0x63]] [.char 120] [.char] [] [] []
    (.cons _ _ _ _ (.int .u8 1 (by decide) (by decide)) .nil) (.cons _ _ _ _ (.char 120 (by decide)) .nil) .nil
    rfl rfl rfl (by decide) (by decide) (by decide)

/-- the full statement fails: known finding K6 (`char` behind the `Content` buffer). -/
theorem roundtrip_statement_false : ¬ roundtrip_statement := by
  intro h
  have h1 := h flatCharT flatCharV [] flatCharHasTC
  rw [List.append_nil, char_behind_content_counterexample.2] at h1
  cases h1

/-! ## 5. alternative framings on input -/

/-- **sequences of definite and of indefinite length are both accepted**, whichever of the two the
    serialiser of the type writes (`Vec<T>` and unknown-length sequences alike). -/
theorem indefinite_seq_accepted (known : Bool) (xs : List SVal) (t : SType) (h : HasEach xs t)
    (hoks : oks xs = true) (hl : xs.length < U64) (rest : Bytes) :
    de (.seq known t) (0x9f :: (sers xs ++ 0xff :: rest)) = .ok (.seq known xs) rest ∧
    de (.seq known t) (Enc.array xs.length ++ (sers xs ++ rest)) = .ok (.seq known xs) rest := by
  have he := roundtrip_each h
  constructor
  · simp only [de]
    rw [Dec.bind_ok _ _ _ _ _ (C04.array_indef _),
      Dec.bind_ok _ _ _ _ _ (seqAccess_indef_rt (de t) xs he (noBreak_of_oks xs hoks) rest)]; rfl
  · simp only [de]
    rw [Dec.bind_ok _ _ _ _ _ (array_rt _ _ hl), Dec.bind_ok _ _ _ _ _ (seqAccess_def_rt (de t) xs he rest)]; rfl

/-- **maps of definite and of indefinite length are both accepted.** -/
theorem indefinite_map_accepted (known : Bool) (kvs : List SVal) (k v : SType) (h : HasPairs kvs k v)
    (hoks : oks kvs = true) (hl : kvs.length / 2 < U64) (hasc : KeysAsc kvs) (rest : Bytes) :
    de (.map known k v) (0xbf :: (sers kvs ++ 0xff :: rest)) = .ok (.map known kvs) rest ∧
    de (.map known k v) (Enc.map (kvs.length / 2) ++ (sers kvs ++ rest)) = .ok (.map known kvs) rest := by
  have hp := roundtrip_pairs h
  have hev := PairsRt.even kvs hp
  constructor
  · simp only [de]
    rw [Dec.bind_ok _ _ _ _ _ (C04.map_indef _),
      Dec.bind_ok _ _ _ _ _ (mapAccess_indef_rt (de k) (de v) kvs hp (noBreak_of_oks kvs hoks) rest),
      mkMap_sorted kvs hev hasc]; rfl
  · simp only [de]
    rw [Dec.bind_ok _ _ _ _ _ (map_rt _ _ hl), Dec.bind_ok _ _ _ _ _ (mapAccess_def_rt (de k) (de v) kvs hp rest),
      mkMap_sorted kvs hev hasc]; rfl

/-- **a struct written as an indefinite-length map is accepted** (`deserialize_struct` is
    `deserialize_map`, whose `MapAccess` stops at the break). -/
theorem indefinite_struct_accepted (names : List Bytes) (vals : List SVal) (ts : List SType) (h : HasAll vals ts)
    (hl : names.length = ts.length) (hnd : names.Nodup) (hok : ∀ n ∈ names, nameOk n = true) (rest : Bytes) :
    de (.struct names ts) (0xbf :: (sers (mkKvs names vals) ++ 0xff :: rest)) = .ok (.struct (mkKvs names vals)) rest := by
  have := deStructBody_indef_rt (fieldDecs names ts) (fieldDecs_wf names ts hl hnd hok) vals
    (by rw [fieldDecs_decs names ts hl]; exact roundtrip_all h) rest
  rw [fieldDecs_names names ts hl] at this
  simp only [de]
  rw [Dec.bind_ok _ _ _ _ _ this]; rfl

/-- **unknown struct fields on input are ignored**: an entry with an unknown key before the
    known fields and another one after them, each with an arbitrary well-formed item of any
    nesting as value (skipped by `IgnoredAny` = `Decoder::skip`), do not change the result, and
    the deserialiser still stops exactly after the map. -/
theorem unknown_struct_fields_ignored (names : List Bytes) (vals : List SVal) (ts : List SType) (h : HasAll vals ts)
    (hl : names.length = ts.length) (hnd : names.Nodup) (hok : ∀ n ∈ names, nameOk n = true)
    (hlen : vals.length + 2 < U64) (k1 k2 : Bytes) (w1 w2 : WItem) (hk1 : nameOk k1 = true) (hk2 : nameOk k2 = true)
    (hn1 : k1 ∉ names) (hn2 : k2 ∉ names) (hw1 : w1.Valid) (hw2 : w2.Valid)
    (hf1 : (encW w1).length < U64) (hf2 : (encW w2).length < U64) (rest : Bytes) :
    de (.struct names ts) (Enc.map (vals.length + 2) ++ (Enc.str k1 ++ (encW w1 ++
      (sers (mkKvs names vals) ++ (Enc.str k2 ++ (encW w2 ++ rest)))))) = .ok (.struct (mkKvs names vals)) rest := by
  have hn := fieldDecs_names names ts hl
  have := deStructBody_unknown (fieldDecs names ts) (fieldDecs_wf names ts hl hnd hok) vals
    (by rw [fieldDecs_decs names ts hl]; exact roundtrip_all h) hlen k1 k2 w1 w2 hk1 hk2
    (by rw [hn]; exact hn1) (by rw [hn]; exact hn2) hw1 hw2 hf1 hf2 rest
  rw [hn] at this
  simp only [de]
  rw [Dec.bind_ok _ _ _ _ _ this]; rfl


/-! ## 6. `deserialize_any` -/

/-- **`deserialize_any` consumes exactly one item.**  For every well-formed item the bridge
    accepts there (`anyOk`: everything but tags, `undefined`, other simple values and integers
    below `-2^63`), in *any* framing — head widths, definite or indefinite arrays and maps,
    chunked strings, half-precision floats — followed by arbitrary bytes, serde's `Content`
    buffer receives the value of the item (`cOfW`) and the decoder stops exactly after it. -/
theorem de_any_consumes_one_item (w : WItem) (hv : w.Valid) (hok : anyOk w = true) (rest : Bytes) :
    deAny (encW w ++ rest) = .ok (cOfW w) rest := deAny_encW w hv hok rest

mutual
theorem toW_anyOk : (v : SVal) → vok v = true → anyOk (toW v) = true
  | .bool b, _ => by cases b <;> rfl
  | .int k v, h => by
    simp only [vok, Bool.and_eq_true, decide_eq_true_eq] at h
    have hb := range_bounds k
    unfold toW intW
    split
    · rfl
    · have : ¬ (9223372036854775808 ≤ (-1 - v).toNat) := by omega
      simp [anyOk, this]
  | .f32 _, _ => rfl
  | .f64 _, _ => rfl
  | .char _, _ => rfl
  | .str _, _ => rfl
  | .bytes _, _ => rfl
  | .none, _ => rfl
  | .some v, h => by simp only [vok] at h; simp only [toW]; exact toW_anyOk v h
  | .unit, _ => rfl
  | .unitStruct, _ => rfl
  | .unitVariant _, _ => rfl
  | .newtypeStruct v, h => by simp only [vok] at h; simp only [toW]; exact toW_anyOk v h
  | .newtypeVariant n v, h => by
    simp only [vok, Bool.and_eq_true] at h
    simp [toW, textW, anyOk, anyOks, toW_anyOk v h.2]
  | .seq known xs, h => by
    simp only [vok, Bool.and_eq_true] at h
    cases known <;> simp [toW, anyOk, toWs_anyOk xs h.2]
  | .tuple xs, h => by
    simp only [vok, Bool.and_eq_true] at h
    simp [toW, anyOk, toWs_anyOk xs h.2]
  | .tupleStruct xs, h => by
    simp only [vok, Bool.and_eq_true] at h
    simp [toW, anyOk, toWs_anyOk xs h.2]
  | .tupleVariant n xs, h => by
    simp only [vok, Bool.and_eq_true] at h
    simp [toW, textW, anyOk, anyOks, toWs_anyOk xs h.2]
  | .map known kvs, h => by
    simp only [vok, Bool.and_eq_true] at h
    cases known <;> simp [toW, anyOk, toWs_anyOk kvs h.2]
  | .struct kvs, h => by
    simp only [vok, Bool.and_eq_true] at h
    simp [toW, anyOk, toWs_anyOk kvs h.2]
  | .structVariant n kvs, h => by
    simp only [vok, Bool.and_eq_true] at h
    simp [toW, textW, anyOk, anyOks, toWs_anyOk kvs h.2]
theorem toWs_anyOk : (xs : List SVal) → oks xs = true → anyOks (toWs xs) = true
  | [], _ => rfl
  | x :: xs, h => by
    simp only [oks, Bool.and_eq_true] at h
    simp [toWs, anyOks, toW_anyOk x h.1, toWs_anyOk xs h.2]
end

/-- in particular everything `ser` writes is accepted by `deserialize_any`, whole. -/
theorem de_any_on_ser (v : SVal) (h : vok v = true) (rest : Bytes) :
    deAny (ser v ++ rest) = .ok (cOfW (toW v)) rest := by
  rw [ser_eq_encW v h]
  exact deAny_encW (toW v) (toW_valid v h) (toW_anyOk v h) rest


/-! ## 7. round trip through serde's `Content` buffer -/

/-- what the buffer holds after `deserialize_any` on `ser v` (`de_any_on_ser`). -/
def cv (v : SVal) : Content := cOfW (toW v)
def cvs (xs : List SVal) : List Content := cOfWs (toWs xs)

mutual
/-- the type can be read back from the buffer: no `char` (K6), no `()` (K7), no unit struct
    under a `ContentRefDeserializer` (`own = false`, untagged enums), no nested buffered
    representation. -/
def cgood : SType → Bool → Bool
  | .bool, _ => true
  | .int _, _ => true
  | .f32, _ => true
  | .f64, _ => true
  | .char, _ => false
  | .str, _ => true
  | .bytes, _ => true
  | .unit, _ => false
  | .unitStruct, own => own
  | .option t, own => cgood t own
  | .newtype t, own => cgood t own
  | .seq _ t, own => cgood t own
  | .tuple ts, own => cgoods ts own
  | .tupleStruct ts, own => cgoods ts own
  | .map _ k v, own => cgood k own && cgood v own
  | .struct _ ts, own => cgoods ts own
  | .structS .., _ => false
  | .enum _ vs, own => cgoodVs vs own
  | .flat .., _ => false
  | .itag .., _ => false
  | .atag .., _ => false
  | .untagged _, _ => false
def cgoods : List SType → Bool → Bool
  | [], _ => true
  | t :: ts, own => cgood t own && cgoods ts own
def cgoodV : VShape → Bool → Bool
  | .unit, _ => true
  | .newtype t, own => cgood t own
  | .tuple ts, own => cgoods ts own
  | .struct _ ts, own => cgoods ts own
  | .structS .., _ => false
def cgoodVs : List VShape → Bool → Bool
  | [], _ => true
  | s :: ss, own => cgoodV s own && cgoodVs ss own
end

@[simp] theorem cres_ok_bind (a : α) (f : α → CRes β) : (CRes.ok a >>= f) = f a := rfl
@[simp] theorem cres_pure (a : α) : (pure a : CRes α) = .ok a := rfl

theorem cvs_cons (x : SVal) (xs : List SVal) : cvs (x :: xs) = cv x :: cvs xs := by simp [cvs, cv, toWs, cOfWs]
theorem cvs_nil : cvs [] = [] := rfl

theorem cv_int (k : IntKind) (v : Int) : ∃ k', cv (.int k v) = .int k' v := by
  unfold cv toW intW
  split
  · rename_i h; exact ⟨_, by simp only [cOfW]; congr 1; omega⟩
  · rename_i h; exact ⟨_, by simp only [cOfW]; congr 1; omega⟩

theorem cOfW_none (w : WItem) (hok : anyOk w = true) (h : cOfW w = .none) : w = .simple 22 := by
  cases w <;> simp only [cOfW] at h <;> try cases h
  · simp [anyOk] at hok
  · rename_i n
    split at h
    · rename_i hn; simp at hn; rw [hn]
    · cases h

theorem cv_ne_none (v : SVal) (hok : vok v = true) (hn : nullLike v = false) : cv v ≠ .none := by
  intro h
  have := toW_null v (cOfW_none (toW v) (toW_anyOk v hok) h)
  rw [this] at hn; cases hn

theorem fromC_option_some (t : SType) (own : Bool) (c : Content) (h : c ≠ .none) :
    fromC (.option t) own c = (fromC t own c >>= fun v => pure (.some v)) := by
  cases c <;> first | rfl | exact absurd rfl h

/-- the readers read back the values, position by position (from the buffer). -/
def AllRtC : List (Content → CRes SVal) → List SVal → Prop
  | f :: fs, v :: vs => f (cv v) = .ok v ∧ AllRtC fs vs
  | [], [] => True
  | _, _ => False

theorem cAll_rt : (fs : List (Content → CRes SVal)) → (vs : List SVal) → AllRtC fs vs → cAll fs (cvs vs) = .ok vs
  | [], [], _ => rfl
  | [], _ :: _, h => by simp [AllRtC] at h
  | _ :: _, [], h => by simp [AllRtC] at h
  | f :: fs, v :: vs, h => by
    simp only [AllRtC] at h
    simp [cvs_cons, cAll, h.1, cAll_rt fs vs h.2]

theorem cEach_rt (f : Content → CRes SVal) : (vs : List SVal) → (∀ v ∈ vs, f (cv v) = .ok v) → cEach f (cvs vs) = .ok vs
  | [], _ => rfl
  | v :: vs, h => by
    simp [cvs_cons, cEach, h v (by simp), cEach_rt f vs (fun x hx => h x (by simp [hx]))]

def PairsRtC (fk fv : Content → CRes SVal) : List SVal → Prop
  | k :: v :: rest => fk (cv k) = .ok k ∧ fv (cv v) = .ok v ∧ PairsRtC fk fv rest
  | [] => True
  | [_] => False

theorem cPairs_rt (fk fv : Content → CRes SVal) : (kvs : List SVal) → PairsRtC fk fv kvs → cPairs fk fv (cvs kvs) = .ok kvs
  | [], _ => rfl
  | [_], h => by cases h
  | k :: v :: rest, h => by
    simp [cvs_cons, cPairs, h.1, h.2.1, cPairs_rt fk fv rest h.2.2]

theorem PairsRtC.even {fk fv : Content → CRes SVal} : (kvs : List SVal) → PairsRtC fk fv kvs → kvs.length % 2 = 0
  | [], _ => rfl
  | [_], h => by cases h
  | _ :: _ :: rest, h => by have := PairsRtC.even rest h.2.2; simp; omega

/-- the buffered entries of a struct: field names as `Str` keys with the buffered values -/
def cKvs : List Bytes → List SVal → List Content
  | n :: ns, v :: vs => .str n :: cv v :: cKvs ns vs
  | _, _ => []

theorem cvs_mkKvs : (ns : List Bytes) → (vs : List SVal) → cvs (mkKvs ns vs) = cKvs ns vs
  | [], _ => by simp [mkKvs, cKvs, cvs_nil]
  | _ :: _, [] => by simp [mkKvs, cKvs, cvs_nil]
  | n :: ns, v :: vs => by
    simp only [mkKvs, cvs_cons, cKvs, cvs_mkKvs ns vs]
    simp [cv, toW, textW, cOfW]

/-- the derived struct visitor over a `MapDeserializer` reads the fields back. -/
theorem cStructLoop_rt (all : List FieldDec) (hnd : (all.map (·.name)).Nodup) :
    (suf : List FieldDec) → (vs : List SVal) → (∀ f ∈ suf, f ∈ all) → ((suf.map (·.name)).Nodup) →
    AllRtC (suf.map (·.fromC)) vs → ∀ (fd : Found), (∀ f ∈ suf, fd.has f.name = false) →
    cStructLoop all (cKvs (suf.map (·.name)) vs) fd = .ok (fd ++ pairsOf (suf.map (·.name)) vs)
  | [], [], _, _, _, fd, _ => by simp [cKvs, cStructLoop, pairsOf]
  | [], _ :: _, _, _, h, _, _ => by simp [AllRtC] at h
  | _ :: _, [], _, _, h, _, _ => by simp [AllRtC] at h
  | f :: suf, v :: vs, hsub, hnds, hrt, fd, hfresh => by
    simp only [List.map_cons, AllRtC] at hrt
    simp only [List.map_cons, List.nodup_cons] at hnds
    have hfind := findField_mem all hnd f (hsub f (by simp))
    have hfr := hfresh f (by simp)
    have ih := cStructLoop_rt all hnd suf vs (fun g hg => hsub g (by simp [hg])) hnds.2 hrt.2 (fd ++ [(f.name, v)])
      (by
        intro g hg
        rw [has_append, hfresh g (by simp [hg])]
        have : f.name ≠ g.name := fun e => hnds.1 (e ▸ List.mem_map_of_mem (f := (·.name)) hg)
        simpa using this)
    simp only [List.map_cons, cKvs, cStructLoop, cFieldId, hfind, hfr, Bool.false_eq_true, if_false, hrt.1,
      cres_ok_bind, ih]
    simp [pairsOf]

theorem allRtC_length : (fs : List (Content → CRes SVal)) → (vs : List SVal) → AllRtC fs vs → fs.length = vs.length
  | [], [], _ => rfl
  | [], _ :: _, h => by simp [AllRtC] at h
  | _ :: _, [], h => by simp [AllRtC] at h
  | _ :: fs, _ :: vs, h => by simp [allRtC_length fs vs h.2]

theorem cStructMap_rt (fs : List FieldDec) (hnd : (fs.map (·.name)).Nodup) (vs : List SVal)
    (hrt : AllRtC (fs.map (·.fromC)) vs) :
    cStructMap fs (cKvs (fs.map (·.name)) vs) = .ok (mkKvs (fs.map (·.name)) vs) := by
  have hl : fs.length = vs.length := by simpa using allRtC_length _ _ hrt
  have hloop := cStructLoop_rt fs hnd fs vs (fun _ h => h) hnd hrt [] (by simp [Found.has])
  have hfin := finish_rt fs vs hl hnd [] (by simp [Found.has])
  simp only [List.nil_append] at hloop hfin
  simp [cStructMap, hloop, hfin]

theorem fieldCs_names : (names : List Bytes) → (ts : List SType) → (own : Bool) → names.length = ts.length →
    (fieldCs names ts own).map (·.name) = names
  | [], [], _, _ => by simp [fieldCs]
  | [], _ :: _, _, h => by simp at h
  | _ :: _, [], _, h => by simp at h
  | n :: ns, t :: ts, own, h => by simp [fieldCs, fieldCs_names ns ts own (by simpa using h)]

theorem fieldCs_fromC : (names : List Bytes) → (ts : List SType) → (own : Bool) → names.length = ts.length →
    (fieldCs names ts own).map (·.fromC) = fromCs ts own
  | [], [], _, _ => by simp [fieldCs, fromCs]
  | [], _ :: _, _, h => by simp at h
  | _ :: _, [], _, h => by simp at h
  | n :: ns, t :: ts, own, h => by simp [fieldCs, fromCs, fieldCs_fromC ns ts own (by simpa using h)]

theorem findVar_varCs : (names : List Bytes) → (vs : List VShape) → (own : Bool) → (n : Bytes) →
    findVar (varCs names vs own) n = (findShape names vs n).map (fun s => (⟨n, fail .custom, varC n s own⟩ : VarDec))
  | [], _, _, _ => by simp [varCs, findVar, findShape]
  | _ :: _, [], _, _ => by simp [varCs, findVar, findShape]
  | n' :: ns, s :: ss, own, n => by
    have ih := findVar_varCs ns ss own n
    simp only [varCs, findVar, List.find?, findShape] at ih ⊢
    by_cases h : n' = n
    · subst h; simp
    · have : (n' == n) = false := by simpa using h
      simp [this, ih]

theorem cgoodVs_find : (names : List Bytes) → (vs : List VShape) → (own : Bool) → (n : Bytes) → (s : VShape) →
    cgoodVs vs own = true → findShape names vs n = some s → cgoodV s own = true
  | [], _, _, _, _, _, h => by simp [findShape] at h
  | _ :: _, [], _, _, _, _, h => by simp [findShape] at h
  | n' :: ns, s' :: ss, own, n, s, hg, h => by
    simp only [cgoodVs, Bool.and_eq_true] at hg
    simp only [findShape] at h
    split at h
    · cases h; exact hg.1
    · exact cgoodVs_find ns ss own n s hg.2 h

/-- the content next to the name of a variant, as buffered -/
def payloadC : SVal → Option Content
  | .newtypeVariant _ x => some (cv x)
  | .tupleVariant _ xs => some (.seq (cvs xs))
  | .structVariant _ kvs => some (.map (cvs kvs))
  | _ => none

theorem struct_fromC (names : List Bytes) (vals : List SVal) (ts : List SType) (own : Bool) (hl : names.length = ts.length)
    (hnd : names.Nodup) (hrt : AllRtC (fromCs ts own) vals) (seqOk : Bool) :
    cStruct (fieldCs names ts own) seqOk (.map (cvs (mkKvs names vals))) = .ok (mkKvs names vals) := by
  have h := cStructMap_rt (fieldCs names ts own) (by rw [fieldCs_names names ts own hl]; exact hnd) vals
    (by rw [fieldCs_fromC names ts own hl]; exact hrt)
  rw [fieldCs_names names ts own hl] at h
  simp only [cStruct, cvs_mkKvs, h]

mutual
/-- **round trip through the buffer**: a value of a directly-read type whose type avoids `char`
    and `()` is rebuilt from the `Content` that `deserialize_any` buffers for its encoding. -/
theorem fromC_rt : {v : SVal} → {t : SType} → HasT v t → (own : Bool) → cgood t own = true → fromC t own (cv v) = .ok v
  | _, _, .bool b, own, _ => by cases b <;> rfl
  | _, _, .int k v h1 h2, own, _ => by
    obtain ⟨k', hk⟩ := cv_int k v
    simp [fromC, hk, h1, h2]
  | _, _, .f32 b _, own, _ => rfl
  | _, _, .f64 b _, own, _ => rfl
  | _, _, .char c _, own, hg => by simp [cgood] at hg
  | _, _, .str s _ _, own, _ => rfl
  | _, _, .bytes b _, own, _ => rfl
  | _, _, .unit, own, hg => by simp [cgood] at hg
  | _, _, .unitStruct, own, hg => by
    simp only [cgood] at hg
    subst hg; rfl
  | _, _, .none t, own, _ => rfl
  | _, _, .some v t h hok hn, own, hg => by
    simp only [cgood] at hg
    have hne := cv_ne_none v hok hn
    show fromC (.option t) own (cv v) = _
    rw [fromC_option_some t own _ hne, fromC_rt h own hg]; rfl
  | _, _, .newtype v t h, own, hg => by
    simp only [cgood] at hg
    show fromC (.newtype t) own (cv v) = _
    simp only [fromC, fromC_rt h own hg]; rfl
  | _, _, .seq known xs t h _ _, own, hg => by
    simp only [cgood] at hg
    have : cv (.seq known xs) = .seq (cvs xs) := by cases known <;> simp [cv, cvs, toW, cOfW]
    simp [fromC, this, cEach_rt _ xs (fromC_each h own hg)]
  | _, _, .tuple xs ts h _, own, hg => by
    simp only [cgood] at hg
    have : cv (.tuple xs) = .seq (cvs xs) := by simp [cv, cvs, toW, cOfW]
    simp [fromC, this, cAll_rt _ xs (fromC_all h own hg)]
  | _, _, .tupleStruct xs ts h _, own, hg => by
    simp only [cgood] at hg
    have : cv (.tupleStruct xs) = .seq (cvs xs) := by simp [cv, cvs, toW, cOfW]
    simp [fromC, this, cAll_rt _ xs (fromC_all h own hg)]
  | _, _, .map known kvs k v h _ _ hasc, own, hg => by
    simp only [cgood, Bool.and_eq_true] at hg
    have : cv (.map known kvs) = .map (cvs kvs) := by cases known <;> simp [cv, cvs, toW, cOfW]
    have hp := fromC_pairs h own hg.1 hg.2
    simp [fromC, this, cPairs_rt _ _ kvs hp, mkMap_sorted kvs (PairsRtC.even kvs hp) hasc]
  | _, _, .struct names vals ts h hl hnd _ _, own, hg => by
    simp only [cgood] at hg
    have : cv (.struct (mkKvs names vals)) = .map (cvs (mkKvs names vals)) := by simp [cv, cvs, toW, cOfW]
    simp [fromC, this, struct_fromC names vals ts own hl hnd (fromC_all h own hg) true]
  | _, _, .enum v names vs n s hvar hf _, own, hg => by
    simp only [cgood] at hg
    have hgs := cgoodVs_find names vs own n s hg hf
    have hv := fromC_var hvar own hgs
    have hfind := findVar_varCs names vs own n
    rw [hf] at hfind
    simp only [Option.map_some] at hfind
    simp only [fromC]
    cases hvar with
    | unit n => simpa [cv, toW, textW, cOfW, cEnum, hfind, payloadC] using hv
    | newtype n x t hx =>
      have : cv (.newtypeVariant n x) = .map [.str n, cv x] := by simp [cv, toW, textW, cOfW, cOfWs]
      simpa [this, cEnum, cVarId, hfind, payloadC] using hv
    | tuple n xs ts hx hl =>
      have : cv (.tupleVariant n xs) = .map [.str n, .seq (cvs xs)] := by simp [cv, cvs, toW, textW, cOfW, cOfWs]
      simpa [this, cEnum, cVarId, hfind, payloadC] using hv
    | struct n fn vals ts hx hl hnd hok hlen =>
      have : cv (.structVariant n (mkKvs fn vals)) = .map [.str n, .map (cvs (mkKvs fn vals))] := by
        simp [cv, cvs, toW, textW, cOfW, cOfWs]
      simpa [this, cEnum, cVarId, hfind, payloadC] using hv
theorem fromC_each : {xs : List SVal} → {t : SType} → HasEach xs t → (own : Bool) → cgood t own = true →
    ∀ v ∈ xs, fromC t own (cv v) = .ok v
  | _, _, .nil t, _, _ => by intro v hv; cases hv
  | _, _, .cons x xs t h hs, own, hg => by
    intro y hy
    rcases List.mem_cons.mp hy with e | hy'
    · rw [e]; exact fromC_rt h own hg
    · exact fromC_each hs own hg y hy'
theorem fromC_all : {xs : List SVal} → {ts : List SType} → HasAll xs ts → (own : Bool) → cgoods ts own = true →
    AllRtC (fromCs ts own) xs
  | _, _, .nil, _, _ => by simp [fromCs, AllRtC]
  | _, _, .cons x xs t ts h hs, own, hg => by
    simp only [cgoods, Bool.and_eq_true] at hg
    simp only [fromCs, AllRtC]
    exact ⟨fromC_rt h own hg.1, fromC_all hs own hg.2⟩
theorem fromC_pairs : {kvs : List SVal} → {k v : SType} → HasPairs kvs k v → (own : Bool) → cgood k own = true →
    cgood v own = true → PairsRtC (fromC k own) (fromC v own) kvs
  | _, _, _, .nil k v, _, _, _ => by simp [PairsRtC]
  | _, _, _, .cons a b rest k v ha hb hs, own, hk, hv => by
    simp only [PairsRtC]
    exact ⟨fromC_rt ha own hk, fromC_rt hb own hv, fromC_pairs hs own hk hv⟩
theorem fromC_var : {v : SVal} → {n : Bytes} → {s : VShape} → VarOf v n s → (own : Bool) → cgoodV s own = true →
    varC n s own (payloadC v) = .ok v
  | _, _, _, .unit n, _, _ => rfl
  | _, _, _, .newtype n x t h, own, hg => by
    simp only [cgoodV] at hg
    simp [varC, payloadC, fromC_rt h own hg]
  | _, _, _, .tuple n xs ts h _, own, hg => by
    simp only [cgoodV] at hg
    simp [varC, payloadC, cAll_rt _ xs (fromC_all h own hg)]
  | _, _, _, .struct n names vals ts h hl hnd _ _, own, hg => by
    simp only [cgoodV] at hg
    simp [varC, payloadC, struct_fromC names vals ts own hl hnd (fromC_all h own hg) true]
end


/-! ## 8. the four buffered representations -/

theorem hasPairs_even : {kvs : List SVal} → {k v : SType} → HasPairs kvs k v → kvs.length % 2 = 0
  | _, _, _, .nil _ _ => rfl
  | _, _, _, .cons _ _ _ _ _ _ _ hs => by have := hasPairs_even hs; simp; omega

theorem oks_mkKvs : (ns : List Bytes) → (vs : List SVal) → (∀ n ∈ ns, nameOk n = true) → oks vs = true → oks (mkKvs ns vs) = true
  | [], _, _, _ => by simp [mkKvs, oks]
  | _ :: _, [], _, _ => by simp [mkKvs, oks]
  | n :: ns, v :: vs, hn, hv => by
    simp only [oks, Bool.and_eq_true] at hv
    have h1 := hn n (by simp)
    simp [mkKvs, oks, vok, h1, hv.1, oks_mkKvs ns vs (fun m hm => hn m (by simp [hm])) hv.2]

mutual
/-- typed values are in range (`vok`). -/
theorem hasT_ok : {v : SVal} → {t : SType} → HasT v t → vok v = true
  | _, _, .bool _ => rfl
  | _, _, .int k v h1 h2 => by simp [vok, h1, h2]
  | _, _, .f32 b h => by simp [vok, h]
  | _, _, .f64 b h => by simp [vok, h]
  | _, _, .char c h => by simp [vok, h]
  | _, _, .str s h1 h2 => by simp [vok, nameOk, h1, h2]
  | _, _, .bytes b h => by simp [vok, h]
  | _, _, .unit => rfl
  | _, _, .unitStruct => rfl
  | _, _, .none _ => rfl
  | _, _, .some v t h hok _ => by simp [vok, hok]
  | _, _, .newtype v t h => by simp [vok, hasT_ok h]
  | _, _, .seq known xs t h hl hoks => by simp [vok, hl, hoks]
  | _, _, .tuple xs ts h hl => by simp [vok, hl, hasAll_ok h]
  | _, _, .tupleStruct xs ts h hl => by simp [vok, hl, hasAll_ok h]
  | _, _, .map known kvs k v h hl hoks _ => by simp [vok, hl, hoks, hasPairs_even h]
  | _, _, .struct names vals ts h hl hnd hok hlen => by
    have hlv : names.length = vals.length := by rw [hl, hasAll_length h]
    have : (mkKvs names vals).length = 2 * vals.length := mkKvs_length names vals hlv
    have h1 : (mkKvs names vals).length % 2 = 0 := by omega
    have h2 : (mkKvs names vals).length / 2 < U64 := by omega
    simp [vok, h1, h2, oks_mkKvs names vals hok (hasAll_ok h)]
  | _, _, .enum v names vs n s hvar hf hn => hasVar_ok hvar hn
theorem hasVar_ok : {v : SVal} → {n : Bytes} → {s : VShape} → VarOf v n s → nameOk n = true → vok v = true
  | _, _, _, .unit n, hn => by simp [vok, hn]
  | _, _, _, .newtype n x t hx, hn => by simp [vok, hn, hasT_ok hx]
  | _, _, _, .tuple n xs ts hx hl, hn => by simp [vok, hn, hl, hasAll_ok hx]
  | _, _, _, .struct n fn vals ts hx hl hnd hok hlen, hn => by
    have hlv : fn.length = vals.length := by rw [hl, hasAll_length hx]
    have : (mkKvs fn vals).length = 2 * vals.length := mkKvs_length fn vals hlv
    have h1 : (mkKvs fn vals).length % 2 = 0 := by omega
    have h2 : (mkKvs fn vals).length / 2 < U64 := by omega
    simp [vok, hn, h1, h2, oks_mkKvs fn vals hok (hasAll_ok hx)]
theorem hasAll_ok : {xs : List SVal} → {ts : List SType} → HasAll xs ts → oks xs = true
  | _, _, .nil => rfl
  | _, _, .cons x xs t ts h hs => by simp [oks, hasT_ok h, hasAll_ok hs]
end

theorem firstOk_at (c : Content) (v : SVal) : (vs : List VShape) → (i : Nat) → (s : VShape) → vs[i]? = some s →
    (∀ j, j < i → ∀ s', vs[j]? = some s' → untaggedC s' c = .fail) → untaggedC s c = .ok v →
    firstOk (untaggedCs vs) c = .ok v
  | [], _, _, h, _, _ => by simp at h
  | s0 :: ss, 0, s, h, _, hok => by
    simp at h; subst h
    simp [untaggedCs, firstOk, hok]
  | s0 :: ss, i + 1, s, h, hfail, hok => by
    have h0 := hfail 0 (by omega) s0 (by simp)
    have ih := firstOk_at c v ss i s (by simpa using h) (fun j hj s' hs' => hfail (j + 1) (by omega) s' (by simpa using hs')) hok
    simp [untaggedCs, firstOk, h0, ih]

/-- untagged enums: the buffered content is accepted by the value's own variant, the earlier
    ones having refused it. -/
theorem untagged_rt (vs : List VShape) (i : Nat) (s : VShape) (v : SVal) (hi : vs[i]? = some s) (hok : vok v = true)
    (hat : UntaggedAt vs i v) (hc : untaggedC s (cv v) = .ok v) (rest : Bytes) :
    de (.untagged vs) (ser v ++ rest) = .ok v rest := by
  have hany := de_any_on_ser v hok rest
  simp only [de]
  rw [Dec.bind_ok _ _ _ _ _ hany]
  have : firstOk (untaggedCs vs) (cv v) = .ok v := firstOk_at (cv v) v vs i s hi (fun j hj s' hs' => hat j hj s' hs') hc
  show liftC (firstOk (untaggedCs vs) (cv v)) rest = _
  rw [this]; rfl


/-! ### adjacently tagged: read directly when the tag comes first (as `ser` writes it) -/

theorem adjDec_name (n : Bytes) (s : VShape) : (adjDec n s).name = n := by cases s <;> rfl

theorem findAdj_adjDecs : (names : List Bytes) → (vs : List VShape) → (n : Bytes) →
    findAdj (adjDecs names vs) n = (findShape names vs n).map (adjDec n)
  | [], _, _ => by simp [adjDecs, findAdj, findShape]
  | _ :: _, [], _ => by simp [adjDecs, findAdj, findShape]
  | n' :: ns, s :: ss, n => by
    have ih := findAdj_adjDecs ns ss n
    simp only [adjDecs, findAdj, List.find?, findShape, adjDec_name] at ih ⊢
    by_cases h : n' = n
    · subst h; simp
    · have : (n' == n) = false := by simpa using h
      simp [this, ih]

theorem adjKey_tag (tag content : Bytes) (k : Nat) (rest : Bytes) (ht : nameOk tag = true) :
    adjKey tag content (some (k + 1)) (Enc.str tag ++ rest) = .ok (some .tag, some (k + 1)) rest := by
  simp only [nameOk, Bool.and_eq_true, decide_eq_true_eq] at ht
  unfold adjKey
  simp only [adjNextKey]
  rw [Dec.bind_run]
  simp only [Dec.pure_run, Bool.not_true, Bool.false_eq_true, if_false]
  rw [Dec.bind_ok _ _ _ _ _ (str_rt tag rest ht.1 ht.2)]
  simp

theorem adjKey_content (tag content : Bytes) (k : Nat) (rest : Bytes) (hc : nameOk content = true) (hne : tag ≠ content) :
    adjKey tag content (some (k + 1)) (Enc.str content ++ rest) = .ok (some .content, some (k + 1)) rest := by
  simp only [nameOk, Bool.and_eq_true, decide_eq_true_eq] at hc
  have h1 : (content == tag) = false := by simpa using fun e => hne e.symm
  unfold adjKey
  simp only [adjNextKey]
  rw [Dec.bind_run]
  simp only [Dec.pure_run, Bool.not_true, Bool.false_eq_true, if_false]
  rw [Dec.bind_ok _ _ _ _ _ (str_rt content rest hc.1 hc.2)]
  simp [h1]

theorem adjKey_end (tag content : Bytes) (bs : Bytes) : adjKey tag content (some 0) bs = .ok (none, some 0) bs := by
  unfold adjKey
  simp [adjNextKey, Dec.bind_run]

theorem adjVariantA_rt (names : List Bytes) (vs : List VShape) (n : Bytes) (s : VShape) (rest : Bytes)
    (hf : findShape names vs n = some s) (hn : nameOk n = true) :
    adjVariantA (adjDecs names vs) (Enc.str n ++ rest) = .ok (adjDec n s) rest := by
  have hn' := hn
  simp only [nameOk, Bool.and_eq_true, decide_eq_true_eq] at hn'
  unfold adjVariantA
  rw [Dec.bind_ok _ _ _ _ _ (enumHeader_str n rest hn), Dec.bind_ok _ _ _ _ _ (str_rt n rest hn'.1 hn'.2),
    findAdj_adjDecs, hf]; rfl

theorem adjRemaining_end (tag content : Bytes) (ret : SVal) (bs : Bytes) :
    adjRemaining tag content (some 0) ret bs = .ok ret bs := by
  unfold adjRemaining
  rw [Dec.bind_ok _ _ _ _ _ (adjKey_end tag content bs)]; rfl

/-- the common part: tag entry, content key, content, end of map. -/
theorem atag_with_content (tag content : Bytes) (names : List Bytes) (vs : List VShape) (n : Bytes) (s : VShape)
    (x : SVal) (body rest : Bytes) (hf : findShape names vs n = some s) (ht : nameOk tag = true)
    (hc : nameOk content = true) (hne : tag ≠ content) (hn : nameOk n = true)
    (hdec : (adjDec n s).dec (body ++ rest) = .ok (some x) rest) :
    deAtagBody tag content (adjDecs names vs)
      (Enc.map 2 ++ (Enc.str tag ++ (Enc.str n ++ (Enc.str content ++ (body ++ rest))))) =
      .ok (.struct [.str tag, .unitVariant n, .str content, x]) rest := by
  unfold deAtagBody
  rw [Dec.bind_ok _ _ _ _ _ (map_rt 2 _ (by decide)), Dec.bind_ok _ _ _ _ _ (adjKey_tag tag content 1 _ ht)]
  dsimp only
  rw [Dec.bind_ok _ _ _ _ _ (adjVariantA_rt names vs n s _ hf hn)]
  dsimp only [Option.map]
  rw [Dec.bind_ok _ _ _ _ _ (adjKey_content tag content 0 _ hc hne)]
  dsimp only
  rw [Dec.bind_ok _ _ _ _ _ hdec]
  have := adjRemaining_end tag content (adjResult tag content (adjDec n s).name (some x)) rest
  simpa [adjResult, adjDec_name] using this

theorem datatype_map (n : Nat) (rest : Bytes) (h : n < U64) : datatype (Enc.map n ++ rest) = .ok .map (Enc.map n ++ rest) := by
  rw [C03.map_pref n h]
  exact datatype_head 5 (prefWidth n) n rest (by omega) (by omega) (prefWidth_fits n h)

theorem deStructAny_map (fs : List FieldDec) (k : Nat) (rest : Bytes) (h : k < U64) :
    deStructAny fs (Enc.map k ++ rest) = deStructBody fs (Enc.map k ++ rest) := by
  unfold deStructAny
  rw [Dec.bind_ok _ _ _ _ _ (datatype_map k rest h)]
  simp

theorem atag_rt (tag content : Bytes) (names : List Bytes) (vs : List VShape) (n : Bytes) (ht : nameOk tag = true)
    (hc : nameOk content = true) (hne : tag ≠ content) (hn : nameOk n = true) (rest : Bytes) :
    (findShape names vs n = some .unit →
      de (.atag tag content names vs) (ser (.struct [.str tag, .unitVariant n]) ++ rest) = .ok (.struct [.str tag, .unitVariant n]) rest) ∧
    (∀ x t, findShape names vs n = some (.newtype t) → HasT x t →
      de (.atag tag content names vs) (ser (.struct [.str tag, .unitVariant n, .str content, x]) ++ rest) =
        .ok (.struct [.str tag, .unitVariant n, .str content, x]) rest) ∧
    (∀ xs ts, findShape names vs n = some (.tuple ts) → HasAll xs ts → xs.length < U64 →
      de (.atag tag content names vs) (ser (.struct [.str tag, .unitVariant n, .str content, .tuple xs]) ++ rest) =
        .ok (.struct [.str tag, .unitVariant n, .str content, .tuple xs]) rest) ∧
    (∀ fn vals ts, findShape names vs n = some (.struct fn ts) → HasAll vals ts → fn.length = ts.length → fn.Nodup →
      (∀ m ∈ fn, nameOk m = true) → vals.length < U64 →
      de (.atag tag content names vs) (ser (.struct [.str tag, .unitVariant n, .str content, .struct (mkKvs fn vals)]) ++ rest) =
        .ok (.struct [.str tag, .unitVariant n, .str content, .struct (mkKvs fn vals)]) rest) := by
  refine ⟨?_, ?_, ?_, ?_⟩
  · intro hf
    simp only [de, ser, sers, List.length_cons, List.length_nil, List.append_assoc, List.append_nil]
    unfold deAtagBody
    rw [Dec.bind_ok _ _ _ _ _ (map_rt 1 _ (by decide)), Dec.bind_ok _ _ _ _ _ (adjKey_tag tag content 0 _ ht)]
    dsimp only
    rw [Dec.bind_ok _ _ _ _ _ (adjVariantA_rt names vs n .unit _ hf hn)]
    dsimp only [Option.map]
    rw [Dec.bind_ok _ _ _ _ _ (adjKey_end tag content rest)]
    simp [adjDec, adjResult]
  · intro x t hf hx
    have := atag_with_content tag content names vs n (.newtype t) x (ser x) rest hf ht hc hne hn (by
      simp only [adjDec]
      rw [Dec.bind_ok _ _ _ _ _ (roundtrip_plain hx rest)]; rfl)
    simpa [de, ser, sers] using this
  · intro xs ts hf hx hl
    have hlen := hasAll_length hx
    have := atag_with_content tag content names vs n (.tuple ts) (.tuple xs) (Enc.array xs.length ++ sers xs) rest hf ht hc hne hn (by
      simp only [adjDec, List.append_assoc]
      rw [← hlen, Dec.bind_ok _ _ _ _ _ (tupleHeader_rt _ _ hl), Dec.bind_ok _ _ _ _ _ (deAll_rt ts xs (roundtrip_all hx) rest)]; rfl)
    simpa [de, ser, sers] using this
  · intro fn vals ts hf hx hl hnd hok hlen
    have hlv : fn.length = vals.length := by rw [hl, hasAll_length hx]
    have hh := mkKvs_half fn vals hlv
    have := atag_with_content tag content names vs n (.struct fn ts) (.struct (mkKvs fn vals))
      (Enc.map ((mkKvs fn vals).length / 2) ++ sers (mkKvs fn vals)) rest hf ht hc hne hn (by
      simp only [adjDec, List.append_assoc]
      rw [Dec.bind_run, deStructAny_map _ _ _ (by omega), struct_body_rt fn vals ts hl hnd hok hlen (roundtrip_all hx) rest]
      rfl)
    simpa [de, ser, sers] using this


/-! ### internally tagged: `TaggedContentVisitor` then the owned `ContentDeserializer` -/

theorem findVar_itagDecs (tag : Bytes) : (names : List Bytes) → (vs : List VShape) → (n : Bytes) →
    findVar (itagDecs tag names vs) n = (findShape names vs n).map (fun s => (⟨n, fail .custom, itagC tag n s⟩ : VarDec))
  | [], _, _ => by simp [itagDecs, findVar, findShape]
  | _ :: _, [], _ => by simp [itagDecs, findVar, findShape]
  | n' :: ns, s :: ss, n => by
    have ih := findVar_itagDecs tag ns ss n
    simp only [itagDecs, findVar, List.find?, findShape] at ih ⊢
    by_cases h : n' = n
    · subst h; simp
    · have : (n' == n) = false := by simpa using h
      simp [this, ih]

theorem deAny_str (s rest : Bytes) (h : nameOk s = true) : deAny (Enc.str s ++ rest) = .ok (.str s) rest := by
  have := de_any_on_ser (.str s) (by simpa [vok] using h) rest
  simpa [ser, toW, textW, cOfW] using this

/-- the entries after the tag are buffered as they come. -/
theorem itagLoop_rt (tag : Bytes) (vds : List VarDec) : (fn : List Bytes) → (vals : List SVal) → fn.length = vals.length →
    tag ∉ fn → (∀ m ∈ fn, nameOk m = true) → oks vals = true → ∀ (st1 : Option VarDec) (acc : List Content) (rest : Bytes),
    loopN (itagStep tag vds) fn.length (st1, acc) (sers (mkKvs fn vals) ++ rest) = .ok (st1, acc ++ cKvs fn vals) rest
  | [], [], _, _, _, _, st1, acc, rest => by simp [loopN, mkKvs, sers, cKvs]
  | [], _ :: _, h, _, _, _, _, _, _ => by simp at h
  | _ :: _, [], h, _, _, _, _, _, _ => by simp at h
  | f :: fn, v :: vals, hl, hnt, hok, hoks, st1, acc, rest => by
    simp only [oks, Bool.and_eq_true] at hoks
    simp only [List.mem_cons, not_or] at hnt
    have hk := deAny_str f (ser v ++ (sers (mkKvs fn vals) ++ rest)) (hok f (by simp))
    have hv := de_any_on_ser v hoks.1 (sers (mkKvs fn vals) ++ rest)
    have hne : (f == tag) = false := by simpa using fun e => hnt.1 e.symm
    have hstep : itagStep tag vds (st1, acc) (Enc.str f ++ (ser v ++ (sers (mkKvs fn vals) ++ rest))) =
        .ok (st1, acc ++ [.str f, cv v]) (sers (mkKvs fn vals) ++ rest) := by
      unfold itagStep
      rw [Dec.bind_ok _ _ _ _ _ hk]
      simp only [hne, Bool.false_eq_true, if_false]
      rw [Dec.bind_ok _ _ _ _ _ hv]; rfl
    have ih := itagLoop_rt tag vds fn vals (by simpa using hl) hnt.2 (fun m hm => hok m (by simp [hm])) hoks.2 st1
      (acc ++ [.str f, cv v]) rest
    simp only [List.length_cons, loopN, mkKvs, sers, ser, List.append_assoc]
    rw [Dec.bind_ok _ _ _ _ _ hstep, ih]
    simp [cKvs]

/-- internally tagged value with fields `fn` / `vals` (none for a unit variant): the tag entry
    first, as `ser` writes it. -/
theorem itag_rt (tag : Bytes) (names : List Bytes) (vs : List VShape) (n : Bytes) (s : VShape) (fn : List Bytes)
    (vals : List SVal) (hf : findShape names vs n = some s) (hl : fn.length = vals.length) (hnd : (tag :: fn).Nodup)
    (hok : ∀ m ∈ tag :: fn, nameOk m = true) (hn : nameOk n = true) (hoks : oks vals = true) (hlen : vals.length + 1 < U64)
    (hc : itagC tag n s (some (.map (cKvs fn vals))) = .ok (.struct (.str tag :: .str n :: mkKvs fn vals))) (rest : Bytes) :
    de (.itag tag names vs) (ser (.struct (.str tag :: .str n :: mkKvs fn vals)) ++ rest) =
      .ok (.struct (.str tag :: .str n :: mkKvs fn vals)) rest := by
  have hn' := hn
  simp only [nameOk, Bool.and_eq_true, decide_eq_true_eq] at hn'
  simp only [List.nodup_cons] at hnd
  have hlen2 : (SVal.str tag :: SVal.str n :: mkKvs fn vals).length / 2 = vals.length + 1 := by
    simp [mkKvs_length fn vals hl]; omega
  have hid : variantId (itagDecs tag names vs) (Enc.str n ++ (sers (mkKvs fn vals) ++ rest)) =
      .ok ⟨n, fail .custom, itagC tag n s⟩ (sers (mkKvs fn vals) ++ rest) := by
    unfold variantId
    rw [Dec.bind_ok _ _ _ _ _ (str_rt n _ hn'.1 hn'.2), findVar_itagDecs, hf]; rfl
  have hstep1 : itagStep tag (itagDecs tag names vs) (none, [])
      (Enc.str tag ++ (Enc.str n ++ (sers (mkKvs fn vals) ++ rest))) =
      .ok (some ⟨n, fail .custom, itagC tag n s⟩, []) (sers (mkKvs fn vals) ++ rest) := by
    unfold itagStep
    rw [Dec.bind_ok _ _ _ _ _ (deAny_str tag _ (hok tag (by simp)))]
    simp only [beq_self_eq_true, if_true, Option.isSome_none, Bool.false_eq_true, if_false]
    rw [Dec.bind_ok _ _ _ _ _ hid]; rfl
  have hloop := itagLoop_rt tag (itagDecs tag names vs) fn vals hl hnd.1 (fun m hm => hok m (by simp [hm])) hoks
    (some ⟨n, fail .custom, itagC tag n s⟩) [] rest
  simp only [de, ser, sers, List.append_assoc, hlen2]
  unfold deItagBody
  rw [Dec.bind_ok _ _ _ _ _ (datatype_map _ _ hlen)]
  simp only [beq_self_eq_true, Bool.true_or, if_true]
  rw [Dec.bind_ok _ _ _ _ _ (map_rt _ _ hlen)]
  have hml : mapLoop (itagStep tag (itagDecs tag names vs)) (some (vals.length + 1)) (none, [])
      (Enc.str tag ++ (Enc.str n ++ (sers (mkKvs fn vals) ++ rest))) =
      .ok (some ⟨n, fail .custom, itagC tag n s⟩, cKvs fn vals) rest := by
    unfold mapLoop
    simp only [loopN]
    rw [Dec.bind_ok _ _ _ _ _ hstep1, ← hl, hloop]; simp
  rw [Dec.bind_ok _ _ _ _ _ hml]
  dsimp only
  rw [hc]; rfl


/-! ### `#[serde(flatten)]` -/

theorem str_head (n : Bytes) (h : nameOk n = true) : ∃ b tl, Enc.str n = b :: tl ∧ b ≠ 0xff := by
  have hok : vok (.str n) = true := by simpa [vok] using h
  have := encW_head (toW (.str n)) (toW_valid _ hok)
  rw [← ser_eq_encW _ hok] at this
  exact this

/-- the directly-read fields found, in wire order -/
def dPairs (direct : List FieldDec) : List Bytes → List SVal → Found
  | n :: ns, v :: vs => if (findField direct n).isSome then (n, v) :: dPairs direct ns vs else dPairs direct ns vs
  | _, _ => []
/-- the other entries, buffered, in wire order -/
def cColl (direct : List FieldDec) : List Bytes → List SVal → List Content
  | n :: ns, v :: vs => if (findField direct n).isSome then cColl direct ns vs else .str n :: cv v :: cColl direct ns vs
  | _, _ => []

def FlatRt (direct : List FieldDec) : List Bytes → List SVal → Prop
  | n :: ns, v :: vs =>
    (∀ f, findField direct n = some f → ∀ r, f.dec (ser v ++ r) = .ok v r) ∧
    (findField direct n = none → vok v = true) ∧ FlatRt direct ns vs
  | [], [] => True
  | _, _ => False

theorem flatLoop_rt (direct : List FieldDec) : (ns : List Bytes) → (vs : List SVal) → FlatRt direct ns vs →
    ns.Nodup → (∀ n ∈ ns, nameOk n = true) → ∀ (fuel : Nat) (fd : Found) (acc : List Content) (rest : Bytes),
    ns.length + 1 ≤ fuel → (∀ n ∈ ns, fd.has n = false) →
    loopI (flatStep direct) fuel (fd, acc) (sers (mkKvs ns vs) ++ 0xff :: rest) =
      .ok (fd ++ dPairs direct ns vs, acc ++ cColl direct ns vs) rest
  | [], [], _, _, _, fuel, fd, acc, rest, hf, _ => by
    obtain ⟨f, rfl⟩ : ∃ f, fuel = f + 1 := ⟨fuel - 1, by omega⟩
    simp [loopI, mkKvs, sers, dPairs, cColl, Dec.bind_run]
  | [], _ :: _, h, _, _, _, _, _, _, _, _ => by simp [FlatRt] at h
  | _ :: _, [], h, _, _, _, _, _, _, _, _ => by simp [FlatRt] at h
  | n :: ns, v :: vs, hrt, hnd, hok, fuel, fd, acc, rest, hf, hfresh => by
    obtain ⟨fu, rfl⟩ : ∃ f, fuel = f + 1 := ⟨fuel - 1, by omega⟩
    simp only [FlatRt] at hrt
    simp only [List.nodup_cons] at hnd
    have hn := hok n (by simp)
    have hn' := hn
    simp only [nameOk, Bool.and_eq_true, decide_eq_true_eq] at hn'
    obtain ⟨b, tl, hb, hne⟩ := str_head n hn
    have hcur : current (Enc.str n ++ (ser v ++ (sers (mkKvs ns vs) ++ 0xff :: rest))) =
        .ok b (Enc.str n ++ (ser v ++ (sers (mkKvs ns vs) ++ 0xff :: rest))) := by rw [hb]; rfl
    have hne' : (b == 0xff) = false := by simpa using hne
    have hkey := str_rt n (ser v ++ (sers (mkKvs ns vs) ++ 0xff :: rest)) hn'.1 hn'.2
    simp only [loopI, mkKvs, sers, ser, List.append_assoc]
    rw [Dec.bind_ok _ _ _ _ _ hcur]
    simp only [hne', Bool.false_eq_true, if_false]
    cases hfind : findField direct n with
    | none =>
      have hstep : flatStep direct (fd, acc) (Enc.str n ++ (ser v ++ (sers (mkKvs ns vs) ++ 0xff :: rest))) =
          .ok (fd, acc ++ [.str n, cv v]) (sers (mkKvs ns vs) ++ 0xff :: rest) := by
        unfold flatStep
        rw [Dec.bind_ok _ _ _ _ _ hkey]
        simp only [hfind]
        rw [Dec.bind_ok _ _ _ _ _ (de_any_on_ser v (hrt.2.1 hfind) _)]; rfl
      have ih := flatLoop_rt direct ns vs hrt.2.2 hnd.2 (fun m hm => hok m (by simp [hm])) fu fd (acc ++ [.str n, cv v]) rest
        (by simp at hf; omega) (fun m hm => hfresh m (by simp [hm]))
      rw [Dec.bind_ok _ _ _ _ _ hstep, ih]
      simp [dPairs, cColl, hfind]
    | some f =>
      have hstep : flatStep direct (fd, acc) (Enc.str n ++ (ser v ++ (sers (mkKvs ns vs) ++ 0xff :: rest))) =
          .ok (fd ++ [(n, v)], acc) (sers (mkKvs ns vs) ++ 0xff :: rest) := by
        unfold flatStep
        rw [Dec.bind_ok _ _ _ _ _ hkey]
        simp only [hfind, hfresh n (by simp), Bool.false_eq_true, if_false]
        rw [Dec.bind_ok _ _ _ _ _ (hrt.1 f hfind _)]; rfl
      have ih := flatLoop_rt direct ns vs hrt.2.2 hnd.2 (fun m hm => hok m (by simp [hm])) fu (fd ++ [(n, v)]) acc rest
        (by simp at hf; omega) (by
          intro m hm
          rw [has_append, hfresh m (by simp [hm])]
          have : n ≠ m := fun e => hnd.1 (e ▸ hm)
          simpa using this)
      rw [Dec.bind_ok _ _ _ _ _ hstep, ih]
      simp [dPairs, cColl, hfind]

/-! list plumbing for the three segments -/

theorem mkKvs_append : (a : List Bytes) → (va : List SVal) → (b : List Bytes) → (vb : List SVal) → a.length = va.length →
    mkKvs (a ++ b) (va ++ vb) = mkKvs a va ++ mkKvs b vb
  | [], [], _, _, _ => rfl
  | [], _ :: _, _, _, h => by simp at h
  | _ :: _, [], _, _, h => by simp at h
  | n :: a, v :: va, b, vb, h => by simp [mkKvs, mkKvs_append a va b vb (by simpa using h)]

theorem dPairs_append (direct : List FieldDec) : (a : List Bytes) → (va : List SVal) → (b : List Bytes) → (vb : List SVal) →
    a.length = va.length → dPairs direct (a ++ b) (va ++ vb) = dPairs direct a va ++ dPairs direct b vb
  | [], [], _, _, _ => rfl
  | [], _ :: _, _, _, h => by simp at h
  | _ :: _, [], _, _, h => by simp at h
  | n :: a, v :: va, b, vb, h => by
    have ih := dPairs_append direct a va b vb (by simpa using h)
    simp only [List.cons_append, dPairs]
    split <;> simp [ih]

theorem cColl_append (direct : List FieldDec) : (a : List Bytes) → (va : List SVal) → (b : List Bytes) → (vb : List SVal) →
    a.length = va.length → cColl direct (a ++ b) (va ++ vb) = cColl direct a va ++ cColl direct b vb
  | [], [], _, _, _ => rfl
  | [], _ :: _, _, _, h => by simp at h
  | _ :: _, [], _, _, h => by simp at h
  | n :: a, v :: va, b, vb, h => by
    have ih := cColl_append direct a va b vb (by simpa using h)
    simp only [List.cons_append, cColl]
    split <;> simp [ih]

theorem dPairs_direct (direct : List FieldDec) : (a : List Bytes) → (va : List SVal) →
    (∀ n ∈ a, (findField direct n).isSome = true) → dPairs direct a va = pairsOf a va ∧ cColl direct a va = []
  | [], _, _ => by simp [dPairs, cColl, pairsOf]
  | _ :: _, [], _ => by simp [dPairs, cColl, pairsOf]
  | n :: a, v :: va, h => by
    have ih := dPairs_direct direct a va (fun m hm => h m (by simp [hm]))
    simp [dPairs, cColl, pairsOf, h n (by simp), ih.1, ih.2]

theorem dPairs_other (direct : List FieldDec) : (a : List Bytes) → (va : List SVal) →
    (∀ n ∈ a, findField direct n = none) → dPairs direct a va = [] ∧ cColl direct a va = cKvs a va
  | [], _, _ => by simp [dPairs, cColl, cKvs]
  | _ :: _, [], _ => by simp [dPairs, cColl, cKvs]
  | n :: a, v :: va, h => by
    have ih := dPairs_other direct a va (fun m hm => h m (by simp [hm]))
    simp [dPairs, cColl, cKvs, h n (by simp), ih.1, ih.2]

theorem flatRt_append (direct : List FieldDec) : (a : List Bytes) → (va : List SVal) → (b : List Bytes) → (vb : List SVal) →
    FlatRt direct a va → FlatRt direct b vb → FlatRt direct (a ++ b) (va ++ vb)
  | [], [], _, _, _, hb => hb
  | [], _ :: _, _, _, h, _ => by simp [FlatRt] at h
  | _ :: _, [], _, _, h, _ => by simp [FlatRt] at h
  | n :: a, v :: va, b, vb, ha, hb => by
    simp only [FlatRt] at ha
    simp only [List.cons_append, FlatRt]
    exact ⟨ha.1, ha.2.1, flatRt_append direct a va b vb ha.2.2 hb⟩

theorem findField_append (a b : List FieldDec) (k : Bytes) :
    findField (a ++ b) k = (match findField a k with | some f => some f | none => findField b k) := by
  induction a with
  | nil => simp [findField]
  | cons f a ih =>
    rw [List.cons_append, findField_cons, findField_cons]
    split
    · rfl
    · exact ih

/-- the fields of one segment are found in the combined list of direct fields. -/
theorem flatRt_direct (direct seg : List FieldDec) (hnd : (direct.map (·.name)).Nodup) (hsub : ∀ f ∈ seg, f ∈ direct) :
    (vs : List SVal) → AllRtD (seg.map (·.dec)) vs → FlatRt direct (seg.map (·.name)) vs := by
  induction seg with
  | nil => intro vs h; cases vs <;> simp_all [AllRtD, FlatRt]
  | cons f seg ih =>
    intro vs h
    cases vs with
    | nil => simp [AllRtD] at h
    | cons v vs =>
      simp only [List.map_cons, AllRtD] at h
      have hfind := findField_mem direct hnd f (hsub f (by simp))
      simp only [List.map_cons, FlatRt]
      refine ⟨?_, ?_, ih (fun g hg => hsub g (by simp [hg])) vs h.2⟩
      · intro g hg r; rw [hfind] at hg; cases hg; exact h.1 r
      · intro hg; rw [hfind] at hg; cases hg

theorem flatRt_other (direct : List FieldDec) : (ns : List Bytes) → (vs : List SVal) → ns.length = vs.length →
    (∀ n ∈ ns, findField direct n = none) → oks vs = true → FlatRt direct ns vs
  | [], [], _, _, _ => by simp [FlatRt]
  | [], _ :: _, h, _, _ => by simp at h
  | _ :: _, [], h, _, _ => by simp at h
  | n :: ns, v :: vs, hl, hnone, hoks => by
    simp only [oks, Bool.and_eq_true] at hoks
    simp only [FlatRt]
    refine ⟨?_, fun _ => hoks.1, flatRt_other direct ns vs (by simpa using hl) (fun m hm => hnone m (by simp [hm])) hoks.2⟩
    intro f hf; rw [hnone n (by simp)] at hf; cases hf

/-- `finishFields` with further entries before and after the segment's own. -/
theorem finish_rt' : (suf : List FieldDec) → (vs : List SVal) → suf.length = vs.length →
    (suf.map (·.name)).Nodup → ∀ (pre post : Found), (∀ f ∈ suf, pre.has f.name = false) →
    finishFields suf (pre ++ pairsOf (suf.map (·.name)) vs ++ post) = some (mkKvs (suf.map (·.name)) vs)
  | [], [], _, _, _, _, _ => by simp [finishFields, mkKvs]
  | [], _ :: _, h, _, _, _, _ => by simp at h
  | _ :: _, [], h, _, _, _, _ => by simp at h
  | f :: suf, v :: vs, hl, hnd, pre, post, hpre => by
    simp only [List.map_cons, List.nodup_cons] at hnd
    have h1 : pre ++ pairsOf (f.name :: suf.map (·.name)) (v :: vs) ++ post =
        (pre ++ [(f.name, v)]) ++ (pairsOf (suf.map (·.name)) vs ++ post) := by simp [pairsOf]
    have hget : Found.get? (pre ++ pairsOf (f.name :: suf.map (·.name)) (v :: vs) ++ post) f.name = some v := by
      rw [h1]
      have h2 : Found.get? (pre ++ [(f.name, v)]) f.name = some v := by
        rw [get?_append_of_has_false pre f.name f.name v (hpre f (by simp))]; simp
      have h3 : Found.has (pre ++ [(f.name, v)]) f.name = true := by rw [has_append]; simp
      rw [get?_append_of_has _ _ _ h3, h2]
    have ih := finish_rt' suf vs (by simpa using hl) hnd.2 (pre ++ [(f.name, v)]) post (by
      intro g hg
      rw [has_append, hpre g (by simp [hg])]
      have : f.name ≠ g.name := fun e => hnd.1 (e ▸ List.mem_map_of_mem (f := (·.name)) hg)
      simpa using this)
    have h4 : pre ++ pairsOf (f.name :: suf.map (·.name)) (v :: vs) ++ post =
        (pre ++ [(f.name, v)]) ++ pairsOf (suf.map (·.name)) vs ++ post := by simp [pairsOf]
    simp only [finishFields, List.map_cons, hget, mkKvs]
    rw [h4, ih]

theorem flatTake_all (inner : List FieldDec) : (ns : List Bytes) → (vs : List SVal) →
    (∀ n ∈ ns, (findField inner n).isSome = true) → flatTake inner (cKvs ns vs) = cKvs ns vs
  | [], _, _ => by simp [cKvs, flatTake]
  | _ :: _, [], _ => by simp [cKvs, flatTake]
  | n :: ns, v :: vs, h => by
    simp [cKvs, flatTake, h n (by simp), flatTake_all inner ns vs (fun m hm => h m (by simp [hm]))]


theorem sers_mkKvs_len : (ns : List Bytes) → (vs : List SVal) → ns.length = vs.length → (∀ n ∈ ns, nameOk n = true) →
    ns.length ≤ (sers (mkKvs ns vs)).length
  | [], [], _, _ => by simp
  | [], _ :: _, h, _ => by simp at h
  | _ :: _, [], h, _ => by simp at h
  | n :: ns, v :: vs, hl, hok => by
    obtain ⟨b, tl, hb, _⟩ := str_head n (hok n (by simp))
    have := sers_mkKvs_len ns vs (by simpa using hl) (fun m hm => hok m (by simp [hm]))
    simp only [mkKvs, sers, ser, List.length_append, List.length_cons, hb]
    omega

theorem findField_isSome (fs : List FieldDec) (n : Bytes) (h : n ∈ fs.map (·.name)) : (findField fs n).isSome = true := by
  induction fs with
  | nil => simp at h
  | cons f fs ih =>
    rw [findField_cons]
    by_cases e : f.name = n
    · simp [e]
    · have : (f.name == n) = false := by simpa using e
      simp only [List.map_cons, List.mem_cons] at h
      rcases h with h | h
      · exact absurd h.symm e
      · simp [this, ih h]

/-- **flattened structs**: the member's fields go through the buffer and come back. -/
theorem flat_rt (preN : List Bytes) (preV : List SVal) (preT : List SType) (inN : List Bytes) (inV : List SVal)
    (inT : List SType) (postN : List Bytes) (postV : List SVal) (postT : List SType)
    (hpre : HasAll preV preT) (hin : HasAll inV inT) (hpost : HasAll postV postT)
    (hl1 : preN.length = preT.length) (hl2 : inN.length = inT.length) (hl3 : postN.length = postT.length)
    (hnd : (preN ++ inN ++ postN).Nodup) (hok : ∀ n ∈ preN ++ inN ++ postN, nameOk n = true)
    (hg : cgoods inT true = true) (rest : Bytes) :
    de (.flat preN preT inN inT postN postT) (ser (.map false (mkKvs (preN ++ inN ++ postN) (preV ++ inV ++ postV))) ++ rest) =
      .ok (.map false (mkKvs (preN ++ inN ++ postN) (preV ++ inV ++ postV))) rest := by
  have hv1 : preN.length = preV.length := by rw [hl1, hasAll_length hpre]
  have hv2 : inN.length = inV.length := by rw [hl2, hasAll_length hin]
  have hv3 : postN.length = postV.length := by rw [hl3, hasAll_length hpost]
  -- names
  have hnd' : (preN ++ (inN ++ postN)).Nodup := by simpa [List.append_assoc] using hnd
  rw [List.nodup_append] at hnd'
  obtain ⟨hndPre, hndIP, hdisj1⟩ := hnd'
  rw [List.nodup_append] at hndIP
  obtain ⟨hndIn, hndPost, hdisj2⟩ := hndIP
  have hdPrePost : ∀ a ∈ preN, ∀ b ∈ postN, a ≠ b := fun a ha b hb => hdisj1 a ha b (by simp [hb])
  have hdPreIn : ∀ a ∈ preN, ∀ b ∈ inN, a ≠ b := fun a ha b hb => hdisj1 a ha b (by simp [hb])
  have hdInPost : ∀ a ∈ inN, ∀ b ∈ postN, a ≠ b := hdisj2
  have hokPre : ∀ n ∈ preN, nameOk n = true := fun n hn => hok n (by simp [hn])
  have hokIn : ∀ n ∈ inN, nameOk n = true := fun n hn => hok n (by simp [hn])
  have hokPost : ∀ n ∈ postN, nameOk n = true := fun n hn => hok n (by simp [hn])
  -- the decoders
  let preD := fieldDecs preN preT
  let postD := fieldDecs postN postT
  let direct := preD ++ postD
  let inner := fieldCs inN inT true
  have hnPre : preD.map (·.name) = preN := fieldDecs_names preN preT hl1
  have hnPost : postD.map (·.name) = postN := fieldDecs_names postN postT hl3
  have hnIn : inner.map (·.name) = inN := fieldCs_names inN inT true hl2
  have hnDirect : direct.map (·.name) = preN ++ postN := by simp [direct, hnPre, hnPost]
  have hndDirect : (direct.map (·.name)).Nodup := by
    rw [hnDirect, List.nodup_append]; exact ⟨hndPre, hndPost, hdPrePost⟩
  have hInNone : ∀ n ∈ inN, findField direct n = none := by
    intro n hn
    apply findField_none
    rw [hnDirect]
    intro hm
    rcases List.mem_append.mp hm with h | h
    · exact hdPreIn n h n hn rfl
    · exact hdInPost n hn n h rfl
  have hPreSome : ∀ n ∈ preN, (findField direct n).isSome = true := fun n hn =>
    findField_isSome direct n (by rw [hnDirect]; simp [hn])
  have hPostSome : ∀ n ∈ postN, (findField direct n).isSome = true := fun n hn =>
    findField_isSome direct n (by rw [hnDirect]; simp [hn])
  -- per-entry read-back
  have hrtPre : FlatRt direct preN preV := by
    have := flatRt_direct direct preD hndDirect (fun f hf => by simp [direct, hf]) preV
      (by rw [fieldDecs_decs preN preT hl1]; exact roundtrip_all hpre)
    rwa [hnPre] at this
  have hrtPost : FlatRt direct postN postV := by
    have := flatRt_direct direct postD hndDirect (fun f hf => by simp [direct, hf]) postV
      (by rw [fieldDecs_decs postN postT hl3]; exact roundtrip_all hpost)
    rwa [hnPost] at this
  have hrtIn : FlatRt direct inN inV := flatRt_other direct inN inV hv2 hInNone (hasAll_ok hin)
  have hrt : FlatRt direct (preN ++ inN ++ postN) (preV ++ inV ++ postV) :=
    flatRt_append direct _ _ _ _ (flatRt_append direct _ _ _ _ hrtPre hrtIn) hrtPost
  -- what the loop leaves
  have hlenAll : (preN ++ inN ++ postN).length = (preV ++ inV ++ postV).length := by simp; omega
  have hdp : dPairs direct (preN ++ inN ++ postN) (preV ++ inV ++ postV) = pairsOf preN preV ++ pairsOf postN postV := by
    rw [dPairs_append direct (preN ++ inN) (preV ++ inV) postN postV (by simp; omega),
      dPairs_append direct preN preV inN inV hv1, (dPairs_direct direct preN preV hPreSome).1,
      (dPairs_other direct inN inV hInNone).1, (dPairs_direct direct postN postV hPostSome).1]
    simp
  have hcc : cColl direct (preN ++ inN ++ postN) (preV ++ inV ++ postV) = cKvs inN inV := by
    rw [cColl_append direct (preN ++ inN) (preV ++ inV) postN postV (by simp; omega),
      cColl_append direct preN preV inN inV hv1, (dPairs_direct direct preN preV hPreSome).2,
      (dPairs_other direct inN inV hInNone).2, (dPairs_direct direct postN postV hPostSome).2]
    simp
  have hfuel := sers_mkKvs_len (preN ++ inN ++ postN) (preV ++ inV ++ postV) hlenAll hok
  have hfuel2 : (preN ++ inN ++ postN).length + 1 ≤
      (sers (mkKvs (preN ++ inN ++ postN) (preV ++ inV ++ postV)) ++ 0xff :: rest).length + 1 := by
    have : (sers (mkKvs (preN ++ inN ++ postN) (preV ++ inV ++ postV)) ++ 0xff :: rest).length =
        (sers (mkKvs (preN ++ inN ++ postN) (preV ++ inV ++ postV))).length + (rest.length + 1) := by
      rw [List.length_append, List.length_cons]
    omega
  have hloop := flatLoop_rt direct (preN ++ inN ++ postN) (preV ++ inV ++ postV) hrt hnd hok
    ((sers (mkKvs (preN ++ inN ++ postN) (preV ++ inV ++ postV)) ++ 0xff :: rest).length + 1) [] [] rest
    hfuel2 (by simp [Found.has])
  rw [hdp, hcc] at hloop
  simp only [List.nil_append] at hloop
  -- after the loop
  have hfinPre : finishFields preD (pairsOf preN preV ++ pairsOf postN postV) = some (mkKvs preN preV) := by
    have hlenD : preD.length = preV.length := by
      have := congrArg List.length hnPre
      simp only [List.length_map] at this
      omega
    have := finish_rt' preD preV hlenD (by rw [hnPre]; exact hndPre) [] (pairsOf postN postV)
      (by simp [Found.has])
    rw [hnPre] at this
    simpa using this
  have hfinPost : finishFields postD (pairsOf preN preV ++ pairsOf postN postV) = some (mkKvs postN postV) := by
    have hlenD : postD.length = postV.length := by
      have := congrArg List.length hnPost
      simp only [List.length_map] at this
      omega
    have := finish_rt' postD postV hlenD (by rw [hnPost]; exact hndPost) (pairsOf preN preV) []
      (by
        intro f hf
        apply pairsOf_has_false
        intro hm
        have : f.name ∈ postN := by rw [← hnPost]; exact List.mem_map_of_mem (f := (·.name)) hf
        exact hdPrePost f.name hm f.name this rfl)
    rw [hnPost] at this
    simpa using this
  have hinner : cStructMap inner (flatTake inner (cKvs inN inV)) = .ok (mkKvs inN inV) := by
    rw [flatTake_all inner inN inV (fun n hn => findField_isSome inner n (by rw [hnIn]; exact hn))]
    have := cStructMap_rt inner (by rw [hnIn]; exact hndIn) inV
      (by rw [show inner.map (·.fromC) = fromCs inT true from fieldCs_fromC inN inT true hl2]; exact fromC_all hin true hg)
    rwa [hnIn] at this
  have hres : mkKvs preN preV ++ mkKvs inN inV ++ mkKvs postN postV = mkKvs (preN ++ inN ++ postN) (preV ++ inV ++ postV) := by
    rw [mkKvs_append (preN ++ inN) (preV ++ inV) postN postV (by simp; omega), mkKvs_append preN preV inN inV hv1]
  -- assemble (the concatenated lists are made opaque so that nothing re-associates them)
  have hml : mapLoop (flatStep (fieldDecs preN preT ++ fieldDecs postN postT)) none ([], [])
      (sers (mkKvs (preN ++ inN ++ postN) (preV ++ inV ++ postV)) ++ 0xff :: rest) =
      .ok (pairsOf preN preV ++ pairsOf postN postV, cKvs inN inV) rest := hloop
  clear hloop hfuel2 hfuel hdp hcc hrt hlenAll
  generalize preN ++ inN ++ postN = ns at *
  generalize preV ++ inV ++ postV = vs at *
  simp only [de, ser, Bool.false_eq_true, if_false, Enc.beginMap, Enc.end, List.cons_append, List.nil_append,
    List.append_assoc]
  unfold deFlatBody
  rw [Dec.bind_ok _ _ _ _ _ (C04.map_indef _), Dec.bind_ok _ _ _ _ _ hml]
  dsimp only
  rw [hfinPre, hfinPost]
  dsimp only
  rw [hinner]
  simp only [liftC]
  rw [Dec.bind_run]
  simp only [Dec.pure_run]
  rw [hres]


/-! ## 9. the full statement outside the two known-finding classes -/

/-- no `char` (K6) and no `()` (K7) at a position that is read through serde's `Content` buffer:
    members of the flattened struct, fields of internally tagged and of untagged variants
    (`cgood`); a unit variant of an untagged enum is such a position itself. -/
def HasTC.good : {v : SVal} → {t : SType} → HasTC v t → Prop
  | _, _, .plain _ _ _ => True
  | _, _, .flat _ _ _ _ _ inT _ _ _ _ _ _ _ _ _ _ _ _ => cgoods inT true = true
  | _, _, .itagUnit .. => True
  | _, _, .itagStruct _ _ _ _ _ _ ts _ _ _ _ _ _ _ => cgoods ts true = true
  | _, _, .itagNewtype _ _ _ _ _ _ ts _ _ _ _ _ _ _ => cgoods ts true = true
  | _, _, .atagUnit .. => True
  | _, _, .atagNewtype .. => True
  | _, _, .atagTuple .. => True
  | _, _, .atagStruct .. => True
  | _, _, .untaggedUnit .. => False
  | _, _, .untaggedNewtype _ _ _ t _ _ _ => cgood t false = true
  | _, _, .untaggedTuple _ _ _ ts _ _ _ _ => cgoods ts false = true
  | _, _, .untaggedStruct _ _ _ _ ts _ _ _ _ _ _ _ => cgoods ts false = true

theorem cv_tuple (xs : List SVal) : cv (.tuple xs) = .seq (cvs xs) := by simp [cv, cvs, toW, cOfW]
theorem cv_struct (kvs : List SVal) : cv (.struct kvs) = .map (cvs kvs) := by simp [cv, cvs, toW, cOfW]

/-- **C17 (c), every representation.**  Every value of every type of the family — directly read
    types, flattened structs, internally tagged, adjacently tagged and untagged enums — whose
    buffered positions avoid `char` and `()` (`good`; exactly the complement of the known
    findings K6 / K7) round-trips: `de t (ser v ++ rest) = ok v rest`, i.e. equal value and the
    deserialiser stops exactly after the item.  `Option` directly in `Option` is excluded by
    the typing itself. -/
theorem roundtrip_content : {v : SVal} → {t : SType} → (h : HasTC v t) → h.good → ∀ rest, de t (ser v ++ rest) = .ok v rest
  | _, _, .plain v t h, _, rest => roundtrip_plain h rest
  | _, _, .flat preN preV preT inN inV inT postN postV postT hpre hin hpost hl1 hl2 hl3 hnd hok _, hg, rest =>
    flat_rt preN preV preT inN inV inT postN postV postT hpre hin hpost hl1 hl2 hl3 hnd hok hg rest
  | _, _, .itagUnit tag names vs n hf ht hn, _, rest => by
    have := itag_rt tag names vs n .unit [] [] hf rfl (by simp) (by simpa using ht) hn rfl (by decide) (by rfl) rest
    simpa [mkKvs] using this
  | _, _, .itagStruct tag names vs n fn vals ts hf hx hl hnd hok hn hlen, hg, rest => by
    have hlv : fn.length = vals.length := by rw [hl, hasAll_length hx]
    have hnd' := hnd
    simp only [List.nodup_cons] at hnd'
    refine itag_rt tag names vs n (.struct fn ts) fn vals hf hlv hnd hok hn (hasAll_ok hx) hlen ?_ rest
    have := struct_fromC fn vals ts true hl hnd'.2 (fromC_all hx true hg) true
    rw [cvs_mkKvs] at this
    simp [itagC, this, itagKvs]
  | _, _, .itagNewtype tag names vs n fn vals ts hf hx hl hnd hok hn hlen, hg, rest => by
    have hlv : fn.length = vals.length := by rw [hl, hasAll_length hx]
    have hnd' := hnd
    simp only [List.nodup_cons] at hnd'
    refine itag_rt tag names vs n (.newtype (.struct fn ts)) fn vals hf hlv hnd hok hn (hasAll_ok hx) hlen ?_ rest
    have := struct_fromC fn vals ts true hl hnd'.2 (fromC_all hx true hg) true
    rw [cvs_mkKvs] at this
    simp [itagC, fromC, this, itagKvs]
  | _, _, .atagUnit tag content names vs n hf ht hc hne hn, _, rest => (atag_rt tag content names vs n ht hc hne hn rest).1 hf
  | _, _, .atagNewtype tag content names vs n x t hf hx ht hc hne hn, _, rest =>
    (atag_rt tag content names vs n ht hc hne hn rest).2.1 x t hf hx
  | _, _, .atagTuple tag content names vs n xs ts hf hx hl ht hc hne hn, _, rest =>
    (atag_rt tag content names vs n ht hc hne hn rest).2.2.1 xs ts hf hx hl
  | _, _, .atagStruct tag content names vs n fn vals ts hf hx hl hnd hok hlen ht hc hne hn, _, rest =>
    (atag_rt tag content names vs n ht hc hne hn rest).2.2.2 fn vals ts hf hx hl hnd hok hlen
  | _, _, .untaggedUnit _ _ _ _, hg, _ => by cases hg
  | _, _, .untaggedNewtype vs i x t hi hx hat, hg, rest =>
    untagged_rt vs i (.newtype t) x hi (hasT_ok hx) hat (by simp only [untaggedC]; exact fromC_rt hx false hg) rest
  | _, _, .untaggedTuple vs i xs ts hi hx hl hat, hg, rest =>
    untagged_rt vs i (.tuple ts) (.tuple xs) hi (hasT_ok (.tuple xs ts hx hl)) hat
      (by simp [untaggedC, cv_tuple, cAll_rt _ xs (fromC_all hx false hg)]) rest
  | _, _, .untaggedStruct vs i fn vals ts hi hx hl hnd hok hlen hat, hg, rest =>
    untagged_rt vs i (.struct fn ts) (.struct (mkKvs fn vals)) hi (hasT_ok (.struct fn vals ts hx hl hnd hok hlen)) hat
      (by simp [untaggedC, cv_struct, struct_fromC fn vals ts false hl hnd (fromC_all hx false hg) false]) rest


/-- **what is proved of the full statement** (`roundtrip_statement`, which is false because of K6
    and K7): it holds for every value of every representation whose buffered positions avoid
    `char` and `()` — `HasTC.good`, the exact complement of the two known-finding classes.
    What is missing is therefore only what the code does not do.  (Modelled, not verified:
    serde's derive output and `Content` machinery, of which `de` / `fromC` are transcriptions.) -/
theorem roundtrip_partial (t : SType) (v : SVal) (rest : Bytes) (h : HasTC v t) (hg : h.good) :
    de t (ser v ++ rest) = .ok v rest := roundtrip_content h hg rest

/-- the K6 instance is typed but not `good`: the side condition is exactly what fails. -/
theorem flatChar_not_good : ¬ flatCharHasTC.good := by
  simp [flatCharHasTC, HasTC.good, cgoods, cgood]


/-! ## 10. fields skipped at run time (`#[serde(default, skip_serializing_if = …)]`) -/

/-- `HasSkips names ts skips wn wt wv`: of the declared fields, those named `wn` (types `wt`,
    values `wv`, in declaration order) are written; every other field's predicate holds for its
    default, which is what a missing field becomes on input. -/
inductive HasSkips : List Bytes → List SType → List SkipIf → List Bytes → List SType → List SVal → Type
  | nil : HasSkips [] [] [] [] [] []
  | written (n : Bytes) (t : SType) (k : SkipIf) (v : SVal) {ns ts ks wn wt wv} : HasT v t → k.holds v = false →
      HasSkips ns ts ks wn wt wv → HasSkips (n :: ns) (t :: ts) (k :: ks) (n :: wn) (t :: wt) (v :: wv)
  | skipped (n : Bytes) (t : SType) (k : SkipIf) (d : SVal) {ns ts ks wn wt wv} :
      (if t.isOption then some SVal.none else k.dflt) = some d → k.holds d = true →
      HasSkips ns ts ks wn wt wv → HasSkips (n :: ns) (t :: ts) (k :: ks) wn wt wv

def hasSkips_all : {ns : List Bytes} → {ts : List SType} → {ks : List SkipIf} → {wn : List Bytes} → {wt : List SType} →
    {wv : List SVal} → HasSkips ns ts ks wn wt wv → HasAll wv wt ×' wn.length = wt.length ×' ns.length = ts.length
  | _, _, _, _, _, _, .nil => ⟨.nil, rfl, rfl⟩
  | _, _, _, _, _, _, .written n t k v hv _ h => by
    obtain ⟨a, b, c⟩ := hasSkips_all h
    exact ⟨.cons _ _ _ _ hv a, by simp [b], by simp [c]⟩
  | _, _, _, _, _, _, .skipped n t k d _ _ h => by
    obtain ⟨a, b, c⟩ := hasSkips_all h
    exact ⟨a, b, by simp [c]⟩

theorem hasSkips_sub : {ns : List Bytes} → {ts : List SType} → {ks : List SkipIf} → {wn : List Bytes} → {wt : List SType} →
    {wv : List SVal} → HasSkips ns ts ks wn wt wv → (fieldDecs wn wt).Sublist (fieldDecs ns ts) ∧ wn.Sublist ns
  | _, _, _, _, _, _, .nil => by simp [fieldDecs]
  | _, _, _, _, _, _, .written n t k v _ _ h => by
    have := hasSkips_sub h
    simp only [fieldDecs]
    exact ⟨this.1.cons_cons _, this.2.cons_cons _⟩
  | _, _, _, _, _, _, .skipped n t k d _ _ h => by
    have := hasSkips_sub h
    simp only [fieldDecs]
    exact ⟨this.1.cons _, this.2.cons _⟩

theorem get?_none_of_has_false (fd : Found) (k : Bytes) (h : fd.has k = false) : fd.get? k = none := by
  induction fd with
  | nil => rfl
  | cons p fd ih =>
    simp only [Found.has, List.any_cons, Bool.or_eq_false_iff] at h
    simp only [Found.get?, List.find?, h.1]
    exact ih (by simpa [Found.has] using h.2)

theorem finishSkip_rt : {ns : List Bytes} → {ts : List SType} → {ks : List SkipIf} → {wn : List Bytes} → {wt : List SType} →
    {wv : List SVal} → HasSkips ns ts ks wn wt wv → ns.Nodup → ∀ (pre : Found), (∀ n ∈ ns, pre.has n = false) →
    finishSkip (fieldDecs ns ts) ks (pre ++ pairsOf wn wv) = some (mkKvs wn wv)
  | _, _, _, _, _, _, .nil, _, _, _ => by simp [fieldDecs, finishSkip, mkKvs]
  | _, _, _, _, _, _, .written n t k v (ns := ns) (wn := wn) (wv := wv) hv hh h, hnd, pre, hpre => by
    simp only [List.nodup_cons] at hnd
    have h1 : pre ++ pairsOf (n :: wn) (v :: wv) = (pre ++ [(n, v)]) ++ pairsOf wn wv := by simp [pairsOf]
    have hget : Found.get? (pre ++ pairsOf (n :: wn) (v :: wv)) n = some v := by
      rw [h1]
      have h2 : Found.get? (pre ++ [(n, v)]) n = some v := by
        rw [get?_append_of_has_false pre n n v (hpre n (by simp))]; simp
      have h3 : Found.has (pre ++ [(n, v)]) n = true := by rw [has_append]; simp
      rw [get?_append_of_has _ _ _ h3, h2]
    have ih := finishSkip_rt h hnd.2 (pre ++ [(n, v)]) (by
      intro m hm
      rw [has_append, hpre m (by simp [hm])]
      have : n ≠ m := fun e => hnd.1 (e ▸ hm)
      simpa using this)
    simp only [fieldDecs, finishSkip, List.headD_cons, List.tail_cons, hget, hh, Bool.false_eq_true, if_false, mkKvs]
    rw [h1, ih]
  | _, _, _, _, _, _, .skipped n t k d (ns := ns) (wn := wn) (wv := wv) hd hh h, hnd, pre, hpre => by
    simp only [List.nodup_cons] at hnd
    have hsub := (hasSkips_sub h).2
    have hnw : n ∉ wn := fun hm => hnd.1 (hsub.subset hm)
    have hhas : Found.has (pre ++ pairsOf wn wv) n = false := by
      simp only [Found.has, List.any_append, Bool.or_eq_false_iff]
      exact ⟨by simpa [Found.has] using hpre n (by simp), by simpa [Found.has] using pairsOf_has_false wn wv n hnw⟩
    have hget := get?_none_of_has_false _ n hhas
    have ih := finishSkip_rt h hnd.2 pre (fun m hm => hpre m (by simp [hm]))
    simp only [fieldDecs, finishSkip, List.headD_cons, List.tail_cons, hget, hd, hh, if_true, ih]

/-- **structs with run-time skipped fields round-trip**: the serialised map holds exactly the
    written fields (its header counts them, `ser_wellformed`); on input the missing ones take
    their defaults, for which the predicate holds again. -/
theorem roundtrip_skipped_fields {ns : List Bytes} {ts : List SType} {ks : List SkipIf} {wn : List Bytes} {wt : List SType}
    {wv : List SVal} (h : HasSkips ns ts ks wn wt wv) (hnd : ns.Nodup) (hok : ∀ n ∈ ns, nameOk n = true)
    (hlen : wv.length < U64) (rest : Bytes) :
    de (.structS ns ts ks) (ser (.struct (mkKvs wn wv)) ++ rest) = .ok (.struct (mkKvs wn wv)) rest := by
  obtain ⟨hall, hlw, hln⟩ := hasSkips_all h
  obtain ⟨hsubD, hsubN⟩ := hasSkips_sub h
  have hwf := fieldDecs_wf ns ts hln hnd hok
  have hlv : wn.length = wv.length := by rw [hlw, hasAll_length hall]
  have hnw := fieldDecs_names wn wt hlw
  have hloop := structLoop_rt (fieldDecs ns ts) hwf (fieldDecs wn wt) wv (fun f hf => hsubD.subset hf)
    (by rw [hnw]; exact hsubN.nodup hnd) (by rw [fieldDecs_decs wn wt hlw]; exact roundtrip_all hall) [] rest
    (by simp [Found.has])
  rw [hnw] at hloop
  have hfin := finishSkip_rt h hnd [] (by simp [Found.has])
  simp only [List.nil_append] at hloop hfin
  have hld : (fieldDecs wn wt).length = wv.length := by
    have := congrArg List.length hnw
    simp only [List.length_map] at this
    omega
  have hml : mapLoop (structStep (fieldDecs ns ts)) (some wv.length) [] (sers (mkKvs wn wv) ++ rest) =
      .ok (pairsOf wn wv) rest := by
    unfold mapLoop; rw [← hld]; exact hloop
  have hbody : deStructSBody (fieldDecs ns ts) ks (Enc.map wv.length ++ (sers (mkKvs wn wv) ++ rest)) =
      .ok (mkKvs wn wv) rest := by
    unfold deStructSBody
    rw [Dec.bind_ok _ _ _ _ _ (map_rt _ _ hlen), Dec.bind_ok _ _ _ _ _ hml, hfin]; rfl
  simp only [de, ser, List.append_assoc, mkKvs_half wn wv hlv]
  rw [Dec.bind_ok _ _ _ _ _ hbody]; rfl

/-- non-vacuity: `struct Record { id: u32, note: Option<String> (skipped when None), tags: Vec<u8>
    (skipped when empty), last: bool }` with `note = None`, `tags = [3]`. -/
example : de (.structS [[0x69], [0x6e], [0x74], [0x6c]] [.int .u32, .option .str, .seq true (.int .u8), .bool]
      [.never, .isNone, .isEmpty, .never])
    (ser (.struct (mkKvs [[0x69], [0x74], [0x6c]] [.int .u32 1, .seq true [.int .u8 3], .bool true])) ++ [0x00]) =
    .ok (.struct (mkKvs [[0x69], [0x74], [0x6c]] [.int .u32 1, .seq true [.int .u8 3], .bool true])) [0x00] := by rfl

end Minicbor.C17
