/-
  C17 — the serde bridge round-trips the serde data model with the documented representation.
  Property theorems only.  The model is Minicbor/Serde.lean (`SVal` = the Serializer-call tree
  of a value, `ser` = ser.rs, `SType` / `de` = de.rs composed with serde's std / derive
  visitors, `Content` / `deAny` / `fromC` = serde's private buffer).
-/
import Minicbor.Lemmas.SerdeStruct
import Minicbor.Lemmas.SerdeAny

namespace Minicbor.C17
open Minicbor.Serde Minicbor.Dec

/-! ## 1. `ser` writes one well-formed item, in the documented representation -/

/-- the wire tree of an integer: preferred head of major type 0 or 1. -/
def intW (v : Int) : WItem :=
  if v ≥ 0 then .uint (prefWidth v.toNat) v.toNat else .nint (prefWidth (-1 - v).toNat) (-1 - v).toNat

def textW (s : Bytes) : WItem := .text (prefWidth s.length) s

mutual
/-- the wire tree `ser` writes. -/
def toW : SVal → WItem
  | .bool b => .simple (if b then 21 else 20)
  | .int _ v => intW v
  | .f32 b => .f32 b
  | .f64 b => .f64 b
  | .char c => .uint (prefWidth c) c
  | .str s => textW s
  | .bytes b => .bytes (prefWidth b.length) b
  | .none => .simple 22
  | .some v => toW v
  | .unit => .array .w0 []
  | .unitStruct => .array .w0 []
  | .unitVariant n => textW n
  | .newtypeStruct v => toW v
  | .newtypeVariant n v => .map .w0 [textW n, toW v]
  | .seq known xs => if known then .array (prefWidth xs.length) (toWs xs) else .arrayI (toWs xs)
  | .tuple xs => .array (prefWidth xs.length) (toWs xs)
  | .tupleStruct xs => .array (prefWidth xs.length) (toWs xs)
  | .tupleVariant n xs => .map .w0 [textW n, .array (prefWidth xs.length) (toWs xs)]
  | .map known kvs => if known then .map (prefWidth (kvs.length / 2)) (toWs kvs) else .mapI (toWs kvs)
  | .struct kvs => .map (prefWidth (kvs.length / 2)) (toWs kvs)
  | .structVariant n kvs => .map .w0 [textW n, .map (prefWidth (kvs.length / 2)) (toWs kvs)]
def toWs : List SVal → List WItem
  | [] => []
  | x :: xs => toW x :: toWs xs
end

mutual
/-- the value is in the range of its Rust type: integers within their kind, floats within
    their width, chars scalar values, strings valid UTF-8, lengths below 2^64, maps and structs
    with whole entries. -/
def vok : SVal → Bool
  | .bool _ => true
  | .int k v => k.lo ≤ v && v ≤ k.hi
  | .f32 b => b < 4294967296
  | .f64 b => b < U64
  | .char c => isScalar c
  | .str s => nameOk s
  | .bytes b => b.length < U64
  | .none => true
  | .some v => vok v
  | .unit => true
  | .unitStruct => true
  | .unitVariant n => nameOk n
  | .newtypeStruct v => vok v
  | .newtypeVariant n v => nameOk n && vok v
  | .seq _ xs => xs.length < U64 && oks xs
  | .tuple xs => xs.length < U64 && oks xs
  | .tupleStruct xs => xs.length < U64 && oks xs
  | .tupleVariant n xs => nameOk n && xs.length < U64 && oks xs
  | .map _ kvs => kvs.length % 2 == 0 && kvs.length / 2 < U64 && oks kvs
  | .struct kvs => kvs.length % 2 == 0 && kvs.length / 2 < U64 && oks kvs
  | .structVariant n kvs => nameOk n && kvs.length % 2 == 0 && kvs.length / 2 < U64 && oks kvs
def oks : List SVal → Bool
  | [] => true
  | x :: xs => vok x && oks xs
end

theorem toWs_length (xs : List SVal) : (toWs xs).length = xs.length := by
  induction xs with
  | nil => simp [toWs]
  | cons x xs ih => simp [toWs, ih]

theorem intW_enc_nonneg (v : Int) (h : 0 ≤ v) : encW (intW v) = encPref (.uint v.toNat) := by
  simp [intW, h, encPref, prefTree]

theorem intItem_enc (v : Int) : encPref (C03.intItem v) = encW (intW v) := by
  unfold C03.intItem intW
  split <;> simp [encPref, prefTree]

theorem encInt_eq (k : IntKind) (v : Int) (h1 : k.lo ≤ v) (h2 : v ≤ k.hi) : encInt k v = encW (intW v) := by
  cases k <;> simp only [IntKind.lo, IntKind.hi, IntKind.ty, IntTy.lo, IntTy.hi, IntTy.u8, IntTy.u16, IntTy.u32,
    IntTy.u64, IntTy.i8, IntTy.i16, IntTy.i32, IntTy.i64] at h1 h2 <;> simp at h1 h2
  · rw [intW_enc_nonneg v h1]; exact C03.u8_pref _ (by omega)
  · rw [intW_enc_nonneg v h1]; exact C03.u16_pref _ (by omega)
  · rw [intW_enc_nonneg v h1]; exact C03.u32_pref _ (by omega)
  · rw [intW_enc_nonneg v h1]; exact C03.u64_pref _ (by omega)
  · rw [← intItem_enc]; exact C03.i8_pref v (by omega)
  · rw [← intItem_enc]; exact C03.i16_pref v (by omega)
  · rw [← intItem_enc]; exact C03.i32_pref v (by omega)
  · rw [← intItem_enc]; exact C03.i64_pref v (by omega)

theorem str_eq (s : Bytes) (h : s.length < U64) : Enc.str s = encW (textW s) := by
  rw [C03.str_pref s h]; rfl

theorem array_eq (n : Nat) (h : n < U64) : Enc.array n = headW 4 (prefWidth n) n := C03.array_pref n h
theorem map_eq (n : Nat) (h : n < U64) : Enc.map n = headW 5 (prefWidth n) n := C03.map_pref n h
theorem map1_eq : Enc.map 1 = headW 5 .w0 1 := by decide
theorem array0_eq : Enc.array 0 = headW 4 .w0 0 := by decide

mutual
/-- `ser v` is the encoding of the wire tree `toW v`. -/
theorem ser_eq_encW : (v : SVal) → vok v = true → ser v = encW (toW v)
  | .bool b, _ => by cases b <;> rfl
  | .int k v, h => by
    simp only [vok, Bool.and_eq_true, decide_eq_true_eq] at h
    simp only [ser, toW]; exact encInt_eq k v h.1 h.2
  | .f32 _, _ => rfl
  | .f64 _, _ => rfl
  | .char c, h => by
    simp only [vok] at h
    have : c < 4294967296 := by simp [isScalar] at h; omega
    simp only [ser, toW]; rw [C03.char_pref c this]; rfl
  | .str s, h => by
    simp only [vok, nameOk, Bool.and_eq_true, decide_eq_true_eq] at h
    simp only [ser, toW]; exact str_eq s h.2
  | .bytes b, h => by
    simp only [vok, decide_eq_true_eq] at h
    simp only [ser, toW]; rw [C03.bytes_pref b h]; rfl
  | .none, _ => rfl
  | .some v, h => by simp only [vok] at h; simp only [ser, toW]; exact ser_eq_encW v h
  | .unit, _ => rfl
  | .unitStruct, _ => rfl
  | .unitVariant n, h => by
    simp only [vok, nameOk, Bool.and_eq_true, decide_eq_true_eq] at h
    simp only [ser, toW]; exact str_eq n h.2
  | .newtypeStruct v, h => by simp only [vok] at h; simp only [ser, toW]; exact ser_eq_encW v h
  | .newtypeVariant n v, h => by
    simp only [vok, nameOk, Bool.and_eq_true, decide_eq_true_eq] at h
    simp only [ser, toW, encW, encWs, List.length_cons, List.length_nil]
    rw [str_eq n h.1.2, ser_eq_encW v h.2, map1_eq]; simp
  | .seq known xs, h => by
    simp only [vok, Bool.and_eq_true, decide_eq_true_eq] at h
    cases known
    · simp [ser, toW, encW, sers_eq_encWs xs h.2, Enc.beginArray, Enc.end]
    · simp [ser, toW, encW, sers_eq_encWs xs h.2, array_eq _ h.1, toWs_length]
  | .tuple xs, h => by
    simp only [vok, Bool.and_eq_true, decide_eq_true_eq] at h
    simp [ser, toW, encW, sers_eq_encWs xs h.2, array_eq _ h.1, toWs_length]
  | .tupleStruct xs, h => by
    simp only [vok, Bool.and_eq_true, decide_eq_true_eq] at h
    simp [ser, toW, encW, sers_eq_encWs xs h.2, array_eq _ h.1, toWs_length]
  | .tupleVariant n xs, h => by
    simp only [vok, nameOk, Bool.and_eq_true, decide_eq_true_eq] at h
    simp only [ser, toW, encW, encWs, List.length_cons, List.length_nil]
    rw [str_eq n h.1.1.2, sers_eq_encWs xs h.2, map1_eq, array_eq _ h.1.2, toWs_length]; simp
  | .map known kvs, h => by
    simp only [vok, Bool.and_eq_true, decide_eq_true_eq] at h
    cases known
    · simp [ser, toW, encW, sers_eq_encWs kvs h.2, Enc.beginMap, Enc.end]
    · simp [ser, toW, encW, sers_eq_encWs kvs h.2, map_eq _ h.1.2, toWs_length]
  | .struct kvs, h => by
    simp only [vok, Bool.and_eq_true, decide_eq_true_eq] at h
    simp [ser, toW, encW, sers_eq_encWs kvs h.2, map_eq _ h.1.2, toWs_length]
  | .structVariant n kvs, h => by
    simp only [vok, nameOk, Bool.and_eq_true, decide_eq_true_eq] at h
    simp only [ser, toW, encW, encWs, List.length_cons, List.length_nil]
    rw [str_eq n h.1.1.1.2, sers_eq_encWs kvs h.2, map1_eq, map_eq _ h.1.2, toWs_length]; simp
theorem sers_eq_encWs : (xs : List SVal) → oks xs = true → sers xs = encWs (toWs xs)
  | [], _ => rfl
  | x :: xs, h => by
    simp only [oks, Bool.and_eq_true] at h
    simp only [sers, toWs, encWs]; rw [ser_eq_encW x h.1, sers_eq_encWs xs h.2]
end


theorem range_bounds (k : IntKind) : -9223372036854775808 ≤ k.lo ∧ k.hi < 18446744073709551616 := by
  cases k <;> decide

mutual
theorem toW_valid : (v : SVal) → vok v = true → (toW v).valid = true
  | .bool b, _ => by cases b <;> rfl
  | .int k v, h => by
    simp only [vok, Bool.and_eq_true, decide_eq_true_eq] at h
    have hb := range_bounds k
    unfold toW intW
    split
    · exact prefWidth_fits _ (by omega)
    · exact prefWidth_fits _ (by omega)
  | .f32 b, h => by simpa [vok, toW, WItem.valid] using h
  | .f64 b, h => by simpa [vok, toW, WItem.valid] using h
  | .char c, h => by
    simp only [vok] at h
    have : c < 18446744073709551616 := by simp [isScalar] at h; omega
    simpa [toW, WItem.valid] using prefWidth_fits c this
  | .str s, h => by
    simp only [vok, nameOk, Bool.and_eq_true, decide_eq_true_eq] at h
    simp [toW, textW, WItem.valid, prefWidth_fits _ h.2, h.1]
  | .bytes b, h => by
    simp only [vok, decide_eq_true_eq] at h
    simp [toW, WItem.valid, prefWidth_fits _ h]
  | .none, _ => rfl
  | .some v, h => by simp only [vok] at h; simp only [toW]; exact toW_valid v h
  | .unit, _ => rfl
  | .unitStruct, _ => rfl
  | .unitVariant n, h => by
    simp only [vok, nameOk, Bool.and_eq_true, decide_eq_true_eq] at h
    simp [toW, textW, WItem.valid, prefWidth_fits _ h.2, h.1]
  | .newtypeStruct v, h => by simp only [vok] at h; simp only [toW]; exact toW_valid v h
  | .newtypeVariant n v, h => by
    simp only [vok, nameOk, Bool.and_eq_true, decide_eq_true_eq] at h
    simp [toW, textW, WItem.valid, validAll, prefWidth_fits _ h.1.2, h.1.1, toW_valid v h.2, (show Width.w0.fits 1 = true from rfl)]
  | .seq known xs, h => by
    simp only [vok, Bool.and_eq_true, decide_eq_true_eq] at h
    cases known <;> simp [toW, WItem.valid, toWs_valid xs h.2, toWs_length, prefWidth_fits _ h.1]
  | .tuple xs, h => by
    simp only [vok, Bool.and_eq_true, decide_eq_true_eq] at h
    simp [toW, WItem.valid, toWs_valid xs h.2, toWs_length, prefWidth_fits _ h.1]
  | .tupleStruct xs, h => by
    simp only [vok, Bool.and_eq_true, decide_eq_true_eq] at h
    simp [toW, WItem.valid, toWs_valid xs h.2, toWs_length, prefWidth_fits _ h.1]
  | .tupleVariant n xs, h => by
    simp only [vok, nameOk, Bool.and_eq_true, decide_eq_true_eq] at h
    simp [toW, textW, WItem.valid, validAll, prefWidth_fits _ h.1.1.2, h.1.1.1, toWs_valid xs h.2, toWs_length,
      prefWidth_fits _ h.1.2, (show Width.w0.fits 1 = true from rfl)]
  | .map known kvs, h => by
    simp only [vok, Bool.and_eq_true, decide_eq_true_eq, beq_iff_eq] at h
    cases known <;> simp [toW, WItem.valid, toWs_valid kvs h.2, toWs_length, prefWidth_fits _ h.1.2, h.1.1]
  | .struct kvs, h => by
    simp only [vok, Bool.and_eq_true, decide_eq_true_eq, beq_iff_eq] at h
    simp [toW, WItem.valid, toWs_valid kvs h.2, toWs_length, prefWidth_fits _ h.1.2, h.1.1]
  | .structVariant n kvs, h => by
    simp only [vok, nameOk, Bool.and_eq_true, decide_eq_true_eq, beq_iff_eq] at h
    simp [toW, textW, WItem.valid, validAll, prefWidth_fits _ h.1.1.1.2, h.1.1.1.1, toWs_valid kvs h.2, toWs_length,
      prefWidth_fits _ h.1.2, h.1.1.2, (show Width.w0.fits 1 = true from rfl)]
theorem toWs_valid : (xs : List SVal) → oks xs = true → validAll (toWs xs) = true
  | [], _ => rfl
  | x :: xs, h => by
    simp only [oks, Bool.and_eq_true] at h
    simp [toWs, validAll, toW_valid x h.1, toWs_valid xs h.2]
end

/-- **C17 (a).**  Serialising any value of the serde data model (integers in the range of their
    type, scalar chars, UTF-8 strings, fewer than 2^64 elements) writes exactly one
    well-formed CBOR item. -/
theorem ser_wellformed (v : SVal) (h : vok v = true) : ∃ w : WItem, w.Valid ∧ ser v = encW w :=
  ⟨toW v, toW_valid v h, ser_eq_encW v h⟩

/-- the RFC 8949 data-model value a serialised value denotes. -/
def denote (v : SVal) : Item := value (toW v)
def denotes (xs : List SVal) : List Item := values (toWs xs)

/-- **C17 (b), the documented representation.**  In the data model (widths and definiteness
    erased): a struct is the map of its entries, whose keys are the field names as text; a unit
    variant is the variant name as text; every other variant is a one-entry map from the name
    to the content (newtype: the value, tuple: an array, struct: a map); `None` is null, `Some`
    and newtype structs are transparent; unit and unit structs are the empty array (`80`);
    sequences and tuples are arrays, maps are maps, whether or not the length was known. -/
theorem ser_representation :
    (∀ kvs, denote (.struct kvs) = .map (denotes kvs)) ∧
    (∀ s, denote (.str s) = .text s) ∧
    (∀ n, denote (.unitVariant n) = .text n) ∧
    (∀ n v, denote (.newtypeVariant n v) = .map [.text n, denote v]) ∧
    (∀ n xs, denote (.tupleVariant n xs) = .map [.text n, .array (denotes xs)]) ∧
    (∀ n kvs, denote (.structVariant n kvs) = .map [.text n, .map (denotes kvs)]) ∧
    denote .none = .simple 22 ∧ (∀ v, denote (.some v) = denote v) ∧ (∀ v, denote (.newtypeStruct v) = denote v) ∧
    denote .unit = .array [] ∧ denote .unitStruct = .array [] ∧ ser .unit = [0x80] ∧ ser .none = [0xf6] ∧
    (∀ k xs, denote (.seq k xs) = .array (denotes xs)) ∧ (∀ xs, denote (.tuple xs) = .array (denotes xs)) ∧
    (∀ xs, denote (.tupleStruct xs) = .array (denotes xs)) ∧
    (∀ k kvs, denote (.map k kvs) = .map (denotes kvs)) := by
  refine ⟨?_, ?_, ?_, ?_, ?_, ?_, ?_, ?_, ?_, ?_, ?_, ?_, ?_, ?_, ?_, ?_, ?_⟩
  case refine_14 => intro k xs; cases k <;> simp [denote, denotes, toW, value]
  case refine_17 => intro k kvs; cases k <;> simp [denote, denotes, toW, value]
  all_goals (intros; first | rfl | simp [denote, denotes, toW, textW, value, values, toWs])


/-! ## 2. round trip -/

/-- serialises as `null`: `None`, possibly under `Some` / transparent newtype wrappers. -/
def nullLike : SVal → Bool
  | .none => true
  | .some v => nullLike v
  | .newtypeStruct v => nullLike v
  | _ => false

/-- the shape a variant name selects (first match, as the derived `__FieldVisitor`). -/
def findShape : List Bytes → List VShape → Bytes → Option VShape
  | n' :: ns, s :: ss, n => if n' == n then some s else findShape ns ss n
  | _, _, _ => none

mutual
/-- `HasT v t`: `v` is (the Serializer trace of) a value of a Rust type described by `t`, for
    the types that are read directly from the wire (no `Content` buffer).  (`Type`-valued so that
    the theorems below can recurse structurally on the derivation; the statements only ever ask
    for a derivation to exist.) -/
inductive HasT : SVal → SType → Type
  | bool (b : Bool) : HasT (.bool b) .bool
  | int (k : IntKind) (v : Int) : k.lo ≤ v → v ≤ k.hi → HasT (.int k v) (.int k)
  | f32 (b : Nat) : b < 4294967296 → HasT (.f32 b) .f32
  | f64 (b : Nat) : b < U64 → HasT (.f64 b) .f64
  | char (c : Nat) : isScalar c = true → HasT (.char c) .char
  | str (s : Bytes) : validUtf8 s = true → s.length < U64 → HasT (.str s) .str
  | bytes (b : Bytes) : b.length < U64 → HasT (.bytes b) .bytes
  | unit : HasT .unit .unit
  | unitStruct : HasT .unitStruct .unitStruct
  | none (t : SType) : HasT .none (.option t)
  /-- `Some(v)`: `v` must not itself serialise as null (the documented exclusion: an `Option`
      directly inside an `Option`, also through transparent newtypes) -/
  | some (v : SVal) (t : SType) : HasT v t → vok v = true → nullLike v = false → HasT (.some v) (.option t)
  | newtype (v : SVal) (t : SType) : HasT v t → HasT (.newtypeStruct v) (.newtype t)
  | seq (known : Bool) (xs : List SVal) (t : SType) : HasEach xs t → xs.length < U64 → oks xs = true →
      HasT (.seq known xs) (.seq known t)
  | tuple (xs : List SVal) (ts : List SType) : HasAll xs ts → xs.length < U64 → HasT (.tuple xs) (.tuple ts)
  | tupleStruct (xs : List SVal) (ts : List SType) : HasAll xs ts → xs.length < U64 → HasT (.tupleStruct xs) (.tupleStruct ts)
  /-- `BTreeMap`: entries in strictly ascending key order -/
  | map (known : Bool) (kvs : List SVal) (k v : SType) : HasPairs kvs k v → kvs.length / 2 < U64 → oks kvs = true →
      KeysAsc kvs → HasT (.map known kvs) (.map known k v)
  /-- a struct: every field, in declaration order; field names distinct -/
  | struct (names : List Bytes) (vals : List SVal) (ts : List SType) : HasAll vals ts → names.length = ts.length →
      names.Nodup → (∀ n ∈ names, nameOk n = true) → vals.length < U64 →
      HasT (.struct (mkKvs names vals)) (.struct names ts)
  | enum (v : SVal) (names : List Bytes) (vs : List VShape) (n : Bytes) (s : VShape) : VarOf v n s →
      findShape names vs n = some s → nameOk n = true → HasT v (.enum names vs)
inductive HasEach : List SVal → SType → Type
  | nil (t : SType) : HasEach [] t
  | cons (x : SVal) (xs : List SVal) (t : SType) : HasT x t → HasEach xs t → HasEach (x :: xs) t
inductive HasAll : List SVal → List SType → Type
  | nil : HasAll [] []
  | cons (x : SVal) (xs : List SVal) (t : SType) (ts : List SType) : HasT x t → HasAll xs ts → HasAll (x :: xs) (t :: ts)
inductive HasPairs : List SVal → SType → SType → Type
  | nil (k v : SType) : HasPairs [] k v
  | cons (a b : SVal) (rest : List SVal) (k v : SType) : HasT a k → HasT b v → HasPairs rest k v →
      HasPairs (a :: b :: rest) k v
/-- the value is variant `n` of shape `s` -/
inductive VarOf : SVal → Bytes → VShape → Type
  | unit (n : Bytes) : VarOf (.unitVariant n) n .unit
  | newtype (n : Bytes) (x : SVal) (t : SType) : HasT x t → VarOf (.newtypeVariant n x) n (.newtype t)
  | tuple (n : Bytes) (xs : List SVal) (ts : List SType) : HasAll xs ts → xs.length < U64 →
      VarOf (.tupleVariant n xs) n (.tuple ts)
  | struct (n : Bytes) (names : List Bytes) (vals : List SVal) (ts : List SType) : HasAll vals ts →
      names.length = ts.length → names.Nodup → (∀ m ∈ names, nameOk m = true) → vals.length < U64 →
      VarOf (.structVariant n (mkKvs names vals)) n (.struct names ts)
end


theorem hasAll_length : {xs : List SVal} → {ts : List SType} → HasAll xs ts → xs.length = ts.length
  | _, _, .nil => rfl
  | _, _, .cons _ _ _ _ _ h => by simp [hasAll_length h]

theorem fieldDecs_names : (names : List Bytes) → (ts : List SType) → names.length = ts.length →
    (fieldDecs names ts).map (·.name) = names
  | [], [], _ => by simp [fieldDecs]
  | [], _ :: _, h => by simp at h
  | _ :: _, [], h => by simp at h
  | n :: ns, t :: ts, h => by simp [fieldDecs, fieldDecs_names ns ts (by simpa using h)]

theorem fieldDecs_decs : (names : List Bytes) → (ts : List SType) → names.length = ts.length →
    (fieldDecs names ts).map (·.dec) = ts.map de
  | [], [], _ => by simp [fieldDecs]
  | [], _ :: _, h => by simp at h
  | _ :: _, [], h => by simp at h
  | n :: ns, t :: ts, h => by simp [fieldDecs, fieldDecs_decs ns ts (by simpa using h)]

theorem fieldDecs_wf (names : List Bytes) (ts : List SType) (hl : names.length = ts.length) (hnd : names.Nodup)
    (hok : ∀ n ∈ names, nameOk n = true) : FieldsWf (fieldDecs names ts) := by
  refine ⟨by rw [fieldDecs_names names ts hl]; exact hnd, ?_⟩
  intro f hf
  have : f.name ∈ (fieldDecs names ts).map (·.name) := List.mem_map_of_mem (f := (·.name)) hf
  rw [fieldDecs_names names ts hl] at this
  exact hok _ this

theorem findVar_varDecs : (names : List Bytes) → (vs : List VShape) → (n : Bytes) →
    findVar (varDecs names vs) n = (findShape names vs n).map (fun s => (⟨n, deVar n s, varC n s true⟩ : VarDec))
  | [], _, _ => by simp [varDecs, findVar, findShape]
  | _ :: _, [], _ => by simp [varDecs, findVar, findShape]
  | n' :: ns, s :: ss, n => by
    have ih := findVar_varDecs ns ss n
    simp only [varDecs, findVar, List.find?, findShape] at ih ⊢
    by_cases h : n' = n
    · subst h; simp
    · have : (n' == n) = false := by simpa using h
      simp [this, ih]

theorem deAll_rt : (ts : List SType) → (xs : List SVal) → AllRtD (ts.map de) xs → ∀ rest,
    deAll ts (sers xs ++ rest) = .ok xs rest
  | [], [], _, rest => by simp [deAll, sers]
  | [], _ :: _, h, _ => by simp [AllRtD] at h
  | _ :: _, [], h, _ => by simp [AllRtD] at h
  | t :: ts, x :: xs, h, rest => by
    simp only [List.map_cons, AllRtD] at h
    simp only [deAll, sers, List.append_assoc]
    rw [Dec.bind_ok _ _ _ _ _ (h.1 _), Dec.bind_ok _ _ _ _ _ (deAll_rt ts xs h.2 rest)]; rfl

theorem wType_ne_break (w : WItem) : wType w ≠ .break := by
  cases w <;> simp only [wType] <;> try simp
  · unfold headTy; simp only; repeat' split
    all_goals simp
  · rename_i w n; cases w <;> simp only [nintType] <;> (try split) <;> simp
  · split
    · unfold headTy; simp only; repeat' split
      all_goals simp
    · simp

/-- a well-formed item never starts with the break byte. -/
theorem encW_head (w : WItem) (hv : w.valid = true) : ∃ b tl, encW w = b :: tl ∧ b ≠ 0xff := by
  have hd := datatype_encW w hv []
  rw [List.append_nil] at hd
  cases he : encW w with
  | nil => rw [he] at hd; simp [Dec.datatype, Dec.bind_run] at hd
  | cons b tl =>
    refine ⟨b, tl, rfl, ?_⟩
    intro hb
    subst hb
    rw [he, datatype_nopeek _ _ (by decide)] at hd
    have : typeOfB 0xff false = wType w := by injection hd
    exact wType_ne_break w (this ▸ by decide)

theorem noBreak_of_oks (xs : List SVal) (h : oks xs = true) : NoBreak xs := by
  induction xs with
  | nil => intro x hx; cases hx
  | cons y ys ih =>
    simp only [oks, Bool.and_eq_true] at h
    intro x hx
    rcases List.mem_cons.mp hx with rfl | hx'
    · rw [ser_eq_encW x h.1]; exact encW_head _ (toW_valid x h.1)
    · exact ih h.2 x hx'

theorem toW_null : (v : SVal) → toW v = .simple 22 → nullLike v = true
  | .none, _ => rfl
  | .some v, h => by simp only [toW] at h; simp only [nullLike]; exact toW_null v h
  | .newtypeStruct v, h => by simp only [toW] at h; simp only [nullLike]; exact toW_null v h
  | .bool b, h => by cases b <;> simp [toW] at h
  | .int _ v, h => by simp only [toW, intW] at h; split at h <;> cases h
  | .f32 _, h => by simp [toW] at h
  | .f64 _, h => by simp [toW] at h
  | .char _, h => by simp [toW] at h
  | .str _, h => by simp [toW, textW] at h
  | .bytes _, h => by simp [toW] at h
  | .unit, h => by simp [toW] at h
  | .unitStruct, h => by simp [toW] at h
  | .unitVariant _, h => by simp [toW, textW] at h
  | .newtypeVariant _ _, h => by simp [toW] at h
  | .seq k _, h => by cases k <;> simp [toW] at h
  | .tuple _, h => by simp [toW] at h
  | .tupleStruct _, h => by simp [toW] at h
  | .tupleVariant _ _, h => by simp [toW] at h
  | .map k _, h => by cases k <;> simp [toW] at h
  | .struct _, h => by simp [toW] at h
  | .structVariant _ _, h => by simp [toW] at h

/-- the first byte of a value that is not null-like is not `null`. -/
theorem datatype_not_null (v : SVal) (hok : vok v = true) (hn : nullLike v = false) (rest : Bytes) :
    ∃ ty, datatype (ser v ++ rest) = .ok ty (ser v ++ rest) ∧ (ty == CType.null) = false := by
  refine ⟨wType (toW v), ?_, ?_⟩
  · rw [ser_eq_encW v hok]; exact datatype_encW _ (toW_valid v hok) rest
  · cases h : wType (toW v) == CType.null with
    | false => rfl
    | true =>
      have h1 : wType (toW v) = .null := by simpa using h
      have := toW_null v (wType_null _ (toW_valid v hok) h1)
      rw [this] at hn; cases hn


theorem datatype_str (n rest : Bytes) (h : nameOk n = true) :
    datatype (Enc.str n ++ rest) = .ok .string (Enc.str n ++ rest) := by
  simp only [nameOk, Bool.and_eq_true, decide_eq_true_eq] at h
  have hv : (textW n).valid = true := by simp [textW, WItem.valid, prefWidth_fits _ h.2, h.1]
  have := datatype_encW (textW n) hv rest
  rw [← str_eq n h.2] at this
  exact this

theorem datatype_map1 (rest : Bytes) : datatype (Enc.map 1 ++ rest) = .ok .map (Enc.map 1 ++ rest) :=
  datatype_nopeek _ _ (by decide)

theorem enumHeader_str (n rest : Bytes) (h : nameOk n = true) : enumHeader (Enc.str n ++ rest) = .ok () (Enc.str n ++ rest) := by
  unfold enumHeader
  rw [Dec.bind_ok _ _ _ _ _ (datatype_str n rest h)]; rfl

theorem enumHeader_map1 (rest : Bytes) : enumHeader (Enc.map 1 ++ rest) = .ok () rest := by
  unfold enumHeader
  rw [Dec.bind_ok _ _ _ _ _ (datatype_map1 rest)]
  simp only [beq_self_eq_true, if_true]
  rw [Dec.bind_ok _ _ _ _ _ (map_rt 1 rest (by decide))]; rfl

theorem variantId_rt (names : List Bytes) (vs : List VShape) (n : Bytes) (s : VShape) (rest : Bytes)
    (hf : findShape names vs n = some s) (hn : nameOk n = true) :
    variantId (varDecs names vs) (Enc.str n ++ rest) = .ok ⟨n, deVar n s, varC n s true⟩ rest := by
  simp only [nameOk, Bool.and_eq_true, decide_eq_true_eq] at hn
  unfold variantId
  rw [Dec.bind_ok _ _ _ _ _ (str_rt n rest hn.1 hn.2), findVar_varDecs, hf]; rfl

theorem tupleHeader_rt (n : Nat) (rest : Bytes) (h : n < U64) : tupleHeader n (Enc.array n ++ rest) = .ok () rest := by
  unfold tupleHeader
  rw [Dec.bind_ok _ _ _ _ _ (array_rt n rest h)]; simp

theorem deUnit_rt (rest : Bytes) : deUnit (Enc.array 0 ++ rest) = .ok () rest := by
  unfold deUnit
  rw [Dec.bind_ok _ _ _ _ _ (array_rt 0 rest (by decide))]; simp

theorem mkKvs_half (names : List Bytes) (vals : List SVal) (h : names.length = vals.length) :
    (mkKvs names vals).length / 2 = vals.length := by
  rw [mkKvs_length names vals h]; omega

/-- the part of a variant's encoding after its name. -/
def payload : SVal → Bytes
  | .newtypeVariant _ x => ser x
  | .tupleVariant _ xs => Enc.array xs.length ++ sers xs
  | .structVariant _ kvs => Enc.map (kvs.length / 2) ++ sers kvs
  | _ => []

theorem struct_body_rt (names : List Bytes) (vals : List SVal) (ts : List SType) (hl : names.length = ts.length)
    (hnd : names.Nodup) (hok : ∀ n ∈ names, nameOk n = true) (hlen : vals.length < U64)
    (hrt : AllRtD (ts.map de) vals) (rest : Bytes) :
    deStructBody (fieldDecs names ts) (Enc.map ((mkKvs names vals).length / 2) ++ (sers (mkKvs names vals) ++ rest)) =
      .ok (mkKvs names vals) rest := by
  have hvl : ts.length = vals.length := by simpa using allRtD_length _ _ hrt
  have := deStructBody_rt (fieldDecs names ts) (fieldDecs_wf names ts hl hnd hok) vals
    (by rw [fieldDecs_decs names ts hl]; exact hrt) hlen rest
  rw [fieldDecs_names names ts hl] at this
  rw [mkKvs_half names vals (by omega)]
  exact this

mutual
/-- **C17 (c), round trip**, for every type read directly from the wire: deserialising the
    bytes `ser` wrote, whatever follows them, returns the value and stops exactly after the
    item.  Mutual structural induction over the typing derivation; sizes are unbounded. -/
theorem roundtrip_plain : {v : SVal} → {t : SType} → HasT v t → ∀ rest, de t (ser v ++ rest) = .ok v rest
  | _, _, .bool b, rest => by
    simp only [de, ser]; rw [Dec.bind_ok _ _ _ _ _ (bool_rt b rest)]; rfl
  | _, _, .int k v h1 h2, rest => by
    simp only [de, ser]; rw [Dec.bind_ok _ _ _ _ _ (int_rt k v rest h1 h2)]; rfl
  | _, _, .f32 b h, rest => by
    simp only [de, ser]; rw [Dec.bind_ok _ _ _ _ _ (f32_rt b rest h)]; rfl
  | _, _, .f64 b h, rest => by
    simp only [de, ser]; rw [Dec.bind_ok _ _ _ _ _ (f64_rt b rest h)]; rfl
  | _, _, .char c h, rest => by
    simp only [de, ser]; rw [Dec.bind_ok _ _ _ _ _ (char_rt c rest h)]; rfl
  | _, _, .str s h1 h2, rest => by
    simp only [de, ser]; rw [Dec.bind_ok _ _ _ _ _ (str_rt s rest h1 h2)]; rfl
  | _, _, .bytes b h, rest => by
    simp only [de, ser]; rw [Dec.bind_ok _ _ _ _ _ (bytes_rt b rest h)]; rfl
  | _, _, .unit, rest => by
    simp only [de, ser]
    rw [Dec.bind_ok _ _ _ _ _ (deUnit_rt rest)]; rfl
  | _, _, .unitStruct, rest => by
    simp only [de, ser]
    rw [Dec.bind_ok _ _ _ _ _ (deUnit_rt rest)]; rfl
  | _, _, .none t, rest => by
    have hd : datatype (0xf6 :: rest) = .ok .null (0xf6 :: rest) := datatype_nopeek _ _ (by decide)
    simp only [de, ser]
    show (datatype >>= _) (0xf6 :: rest) = _
    rw [Dec.bind_ok _ _ _ _ _ hd]
    simp only [beq_self_eq_true, if_true]
    rw [Dec.bind_ok _ _ _ _ _ (skip_null rest)]; rfl
  | _, _, .some v t h hok hn, rest => by
    obtain ⟨ty, hd, hne⟩ := datatype_not_null v hok hn rest
    simp only [de, ser]
    rw [Dec.bind_ok _ _ _ _ _ hd]
    simp only [hne, Bool.false_eq_true, if_false]
    rw [Dec.bind_ok _ _ _ _ _ (roundtrip_plain h rest)]; rfl
  | _, _, .newtype v t h, rest => by
    simp only [de, ser]; rw [Dec.bind_ok _ _ _ _ _ (roundtrip_plain h rest)]; rfl
  | _, _, .seq known xs t h hl hoks, rest => by
    have he := roundtrip_each h
    cases known
    · simp only [de, ser, Bool.false_eq_true, if_false, List.append_assoc]
      rw [Dec.bind_ok _ _ _ _ _ (beginArray_rt _)]
      have := seqAccess_indef_rt (de t) xs he (noBreak_of_oks xs hoks) rest
      simp only [Enc.end, List.cons_append, List.nil_append]
      rw [Dec.bind_ok _ _ _ _ _ this]; rfl
    · simp only [de, ser, if_true, List.append_assoc]
      rw [Dec.bind_ok _ _ _ _ _ (array_rt _ _ hl), Dec.bind_ok _ _ _ _ _ (seqAccess_def_rt (de t) xs he rest)]; rfl
  | _, _, .tuple xs ts h hl, rest => by
    have hlen := hasAll_length h
    simp only [de, ser, List.append_assoc]
    rw [← hlen, Dec.bind_ok _ _ _ _ _ (tupleHeader_rt _ _ hl), Dec.bind_ok _ _ _ _ _ (deAll_rt ts xs (roundtrip_all h) rest)]; rfl
  | _, _, .tupleStruct xs ts h hl, rest => by
    have hlen := hasAll_length h
    simp only [de, ser, List.append_assoc]
    rw [← hlen, Dec.bind_ok _ _ _ _ _ (tupleHeader_rt _ _ hl), Dec.bind_ok _ _ _ _ _ (deAll_rt ts xs (roundtrip_all h) rest)]; rfl
  | _, _, .map known kvs k v h hl hoks hasc, rest => by
    have hp := roundtrip_pairs h
    have hev := PairsRt.even kvs hp
    cases known
    · simp only [de, ser, Bool.false_eq_true, if_false, List.append_assoc]
      rw [Dec.bind_ok _ _ _ _ _ (beginMap_rt _)]
      have := mapAccess_indef_rt (de k) (de v) kvs hp (noBreak_of_oks kvs hoks) rest
      simp only [Enc.end, List.cons_append, List.nil_append]
      rw [Dec.bind_ok _ _ _ _ _ this, mkMap_sorted kvs hev hasc]; rfl
    · simp only [de, ser, if_true, List.append_assoc]
      rw [Dec.bind_ok _ _ _ _ _ (map_rt _ _ hl), Dec.bind_ok _ _ _ _ _ (mapAccess_def_rt (de k) (de v) kvs hp rest),
        mkMap_sorted kvs hev hasc]; rfl
  | _, _, .struct names vals ts h hl hnd hok hlen, rest => by
    simp only [de, ser, List.append_assoc]
    rw [Dec.bind_ok _ _ _ _ _ (struct_body_rt names vals ts hl hnd hok hlen (roundtrip_all h) rest)]; rfl
  | _, _, .enum v names vs n s hvar hf hn, rest => by
    have hid := fun r => variantId_rt names vs n s r hf hn
    simp only [de, deEnumBody]
    have hv := roundtrip_var hvar
    cases hvar with
    | unit n =>
      simp only [ser]
      rw [Dec.bind_ok _ _ _ _ _ (enumHeader_str n rest hn), Dec.bind_ok _ _ _ _ _ (hid rest)]
      simpa [payload] using hv rest
    | newtype n x t hx =>
      simp only [ser, List.append_assoc]
      rw [Dec.bind_ok _ _ _ _ _ (enumHeader_map1 _), Dec.bind_ok _ _ _ _ _ (hid _)]
      simpa [payload] using hv rest
    | tuple n xs ts hx hl =>
      simp only [ser, List.append_assoc]
      rw [Dec.bind_ok _ _ _ _ _ (enumHeader_map1 _), Dec.bind_ok _ _ _ _ _ (hid _)]
      simpa [payload] using hv rest
    | struct n fn vals ts hx hl hnd hok hlen =>
      simp only [ser, List.append_assoc]
      rw [Dec.bind_ok _ _ _ _ _ (enumHeader_map1 _), Dec.bind_ok _ _ _ _ _ (hid _)]
      simpa [payload] using hv rest
theorem roundtrip_each : {xs : List SVal} → {t : SType} → HasEach xs t → EachRt (de t) xs
  | _, _, .nil t => by intro x hx; cases hx
  | _, _, .cons x xs t h hs => by
    intro y hy rest
    rcases List.mem_cons.mp hy with e | hy'
    · rw [e]; exact roundtrip_plain h rest
    · exact roundtrip_each hs y hy' rest
theorem roundtrip_all : {xs : List SVal} → {ts : List SType} → HasAll xs ts → AllRtD (ts.map de) xs
  | _, _, .nil => by simp [AllRtD]
  | _, _, .cons x xs t ts h hs => by
    simp only [List.map_cons, AllRtD]
    exact ⟨fun r => roundtrip_plain h r, roundtrip_all hs⟩
theorem roundtrip_pairs : {kvs : List SVal} → {k v : SType} → HasPairs kvs k v → PairsRt (de k) (de v) kvs
  | _, _, _, .nil k v => by simp [PairsRt]
  | _, _, _, .cons a b rest k v ha hb hs => by
    simp only [PairsRt]
    exact ⟨fun r => roundtrip_plain ha r, fun r => roundtrip_plain hb r, roundtrip_pairs hs⟩
/-- the content of a variant, after the optional `map(1)` wrapper and the name -/
theorem roundtrip_var : {v : SVal} → {n : Bytes} → {s : VShape} → VarOf v n s → ∀ rest,
    deVar n s (payload v ++ rest) = .ok v rest
  | _, _, _, .unit n, rest => by simp [deVar, payload]
  | _, _, _, .newtype n x t h, rest => by
    simp only [deVar, payload]; rw [Dec.bind_ok _ _ _ _ _ (roundtrip_plain h rest)]; rfl
  | _, _, _, .tuple n xs ts h hl, rest => by
    have hlen := hasAll_length h
    simp only [deVar, payload, List.append_assoc]
    rw [← hlen, Dec.bind_ok _ _ _ _ _ (tupleHeader_rt _ _ hl), Dec.bind_ok _ _ _ _ _ (deAll_rt ts xs (roundtrip_all h) rest)]; rfl
  | _, _, _, .struct n names vals ts h hl hnd hok hlen, rest => by
    simp only [deVar, payload, List.append_assoc]
    rw [Dec.bind_ok _ _ _ _ _ (struct_body_rt names vals ts hl hnd hok hlen (roundtrip_all h) rest)]; rfl
end


/-! ## 3. what is excluded, and why: machine-checked counterexamples -/

/-- `Option<Option<u8>>`: `Some(None)` is written as `null` and read back as `None` — the
    property's own documented exclusion (`nullLike` in `HasT.some`). -/
theorem option_in_option_counterexample :
    ser (.some .none) = [0xf6] ∧
    de (.option (.option (.int .u8))) (ser (.some .none)) = .ok .none [] := by
  constructor <;> rfl

/-- `struct Outer { a: u8, #[serde(flatten)] inner: Inner }`, `struct Inner { c: char }`. -/
def flatCharT : SType := .flat [[0x61]] [.int .u8] [[0x63]] [.char] [] []
/-- the value `Outer { a: 1, inner: Inner { c: 'x' } }` as the Serializer sees it -/
def flatCharV : SVal := .map false [.str [0x61], .int .u8 1, .str [0x63], .char 120]

/-- **Known finding K6.**  A `char` reached through serde's `Content` buffer (here: a flattened
    struct) does not round-trip: the bridge writes a `char` as an unsigned integer, the buffer
    holds `Content::U8(120)`, and serde's `ContentDeserializer::deserialize_char` accepts only
    `Char` / `Str`.  The bytes are `bf 61 61 01 61 63 18 78 ff`; the whole item is consumed and
    a serde `invalid type` error (class `message`) is returned. -/
theorem char_behind_content_counterexample :
    ser flatCharV = [0xbf, 0x61, 0x61, 0x01, 0x61, 0x63, 0x18, 0x78, 0xff] ∧
    de flatCharT (ser flatCharV) = .err .message [] := by
  constructor <;> rfl

/-- `struct Outer { a: u8, #[serde(flatten)] inner: Inner }`, `struct Inner { u: () }`. -/
def flatUnitT : SType := .flat [[0x61]] [.int .u8] [[0x75]] [.unit] [] []
def flatUnitV : SVal := .map false [.str [0x61], .int .u8 1, .str [0x75], .unit]

/-- **Known finding K7.**  The unit value `()` reached through serde's `Content` buffer does not
    round-trip either: the bridge writes unit as the empty array `80`, the buffer holds
    `Content::Seq([])`, and `ContentDeserializer::deserialize_unit` accepts only `Unit` (or an
    empty map).  The same holds for a unit variant of an untagged enum. -/
theorem unit_behind_content_counterexample :
    ser flatUnitV = [0xbf, 0x61, 0x61, 0x01, 0x61, 0x75, 0x80, 0xff] ∧
    de flatUnitT (ser flatUnitV) = .err .message [] ∧
    de (.untagged [.unit, .newtype (.int .u8)]) (ser .unit) = .err .message [] := by
  refine ⟨?_, ?_, ?_⟩ <;> rfl

set_option maxRecDepth 8192 in
/-- the types behind a `Content` buffer do round-trip when neither `char` nor `()` is involved:
    a flattened struct, an internally tagged, an adjacently tagged and an untagged enum
    (machine-checked instances; the general statement for these representations is
    `roundtrip_statement`). -/
theorem content_roundtrip_examples :
    (let t : SType := .flat [[0x61]] [.int .u8] [[0x62], [0x63]] [.int .u16, .str] [[0x64]] [.bool]
     let v : SVal := .map false [.str [0x61], .int .u8 1, .str [0x62], .int .u16 500, .str [0x63], .str [0x68],
                                 .str [0x64], .bool true]
     de t (ser v ++ [0x00]) = .ok v [0x00]) ∧
    (let t : SType := .itag [0x74] [[0x41], [0x42]] [.unit, .struct [[0x78]] [.int .i32]]
     let v : SVal := .struct [.str [0x74], .str [0x42], .str [0x78], .int .i32 (-300)]
     de t (ser v ++ [0x00]) = .ok v [0x00]) ∧
    (let t : SType := .atag [0x74] [0x63] [[0x41], [0x42]] [.unit, .tuple [.int .u8, .char]]
     let v : SVal := .struct [.str [0x74], .unitVariant [0x42], .str [0x63], .tuple [.int .u8 7, .char 8364]]
     de t (ser v ++ [0x00]) = .ok v [0x00]) ∧
    (let t : SType := .untagged [.newtype (.int .u32), .tuple [.int .u8, .int .u8], .struct [[0x78]] [.str]]
     let v : SVal := .struct [.str [0x78], .str [0x68, 0x69]]
     de t (ser v ++ [0x00]) = .ok v [0x00]) := by
  refine ⟨?_, ?_, ?_, ?_⟩ <;> rfl

/-- non-vacuity of `roundtrip_plain`: a struct with an optional field, a sequence of unknown
    length, an enum struct variant and a map satisfies `HasT`. -/
def exampleT : SType :=
  .struct [[0x61], [0x62], [0x63]] [.option (.int .i64), .seq false (.int .u16),
    .enum [[0x41], [0x44]] [.unit, .struct [[0x78]] [.bool]]]
def exampleV : SVal :=
  .struct (mkKvs [[0x61], [0x62], [0x63]] [.some (.int .i64 (-9223372036854775808)), .seq false [.int .u16 1, .int .u16 65535],
    .structVariant [0x44] (mkKvs [[0x78]] [.bool true])])

def exampleHasT : HasT exampleV exampleT :=
  .struct _ _ _
    (.cons _ _ _ _ (.some _ _ (.int .i64 _ (by simp [IntKind.lo, IntKind.ty, IntTy.lo, IntTy.i64]) (by simp [IntKind.hi, IntKind.ty, IntTy.hi, IntTy.i64])) rfl rfl)
      (.cons _ _ _ _ (.seq false _ _ (.cons _ _ _ (.int .u16 1 (by decide) (by decide))
          (.cons _ _ _ (.int .u16 65535 (by decide) (by decide)) (.nil _))) (by decide) (by decide))
        (.cons _ _ _ _ (.enum _ _ _ [0x44] (.struct [[0x78]] [.bool])
            (.struct [0x44] [[0x78]] [.bool true] [.bool] (.cons _ _ _ _ (.bool true) .nil) rfl (by decide) (by decide) (by decide))
            rfl (by decide))
          .nil)))
    rfl (by decide) (by decide) (by decide)

example : de exampleT (ser exampleV ++ [0xff]) = .ok exampleV [0xff] := roundtrip_plain exampleHasT [0xff]


/-! ## 4. the full statement (all representations), its refutation in the known classes -/

/-- the `Content` that the bridge's `deserialize_any` buffers for a serialised value. -/
def cInt (v : Int) : Content :=
  if v ≥ 0 then
    (if v ≤ 255 then .int .u8 v else if v ≤ 65535 then .int .u16 v else if v ≤ 4294967295 then .int .u32 v else .int .u64 v)
  else
    (if v ≥ -128 then .int .i8 v else if v ≥ -32768 then .int .i16 v else if v ≥ -2147483648 then .int .i32 v else .int .i64 v)

mutual
def toC : SVal → Content
  | .bool b => .bool b
  | .int _ v => cInt v
  | .f32 b => .f32 b
  | .f64 b => .f64 b
  | .char c => cInt c
  | .str s => .str s
  | .bytes b => .bytes b
  | .none => .none
  | .some v => toC v
  | .unit => .seq []
  | .unitStruct => .seq []
  | .unitVariant n => .str n
  | .newtypeStruct v => toC v
  | .newtypeVariant n v => .map [.str n, toC v]
  | .seq _ xs => .seq (toCs xs)
  | .tuple xs => .seq (toCs xs)
  | .tupleStruct xs => .seq (toCs xs)
  | .tupleVariant n xs => .map [.str n, .seq (toCs xs)]
  | .map _ kvs => .map (toCs kvs)
  | .struct kvs => .map (toCs kvs)
  | .structVariant n kvs => .map [.str n, .map (toCs kvs)]
def toCs : List SVal → List Content
  | [] => []
  | x :: xs => toC x :: toCs xs
end

/-- the value is variant number `i` (0-based) of an untagged enum: its trace is the content of
    that variant, and no earlier variant accepts the buffered content (serde tries the variants in
    order; ambiguous enums are outside the property). -/
def UntaggedAt (vs : List VShape) (i : Nat) (v : SVal) : Prop :=
  ∀ j, j < i → ∀ s, vs[j]? = some s → untaggedC s (toC v) = .fail

/-- `HasTC v t`: typing for every representation, including the four that go through serde's
    `Content` buffer.  Members of flattened structs and contents of tagged / untagged variants
    are values of directly-read types (`HasT`). -/
inductive HasTC : SVal → SType → Type
  | plain (v : SVal) (t : SType) : HasT v t → HasTC v t
  | flat (preN : List Bytes) (preV : List SVal) (preT : List SType) (inN : List Bytes) (inV : List SVal) (inT : List SType)
      (postN : List Bytes) (postV : List SVal) (postT : List SType) :
      HasAll preV preT → HasAll inV inT → HasAll postV postT →
      preN.length = preT.length → inN.length = inT.length → postN.length = postT.length →
      (preN ++ inN ++ postN).Nodup → (∀ n ∈ preN ++ inN ++ postN, nameOk n = true) →
      (preV ++ inV ++ postV).length < U64 →
      HasTC (.map false (mkKvs (preN ++ inN ++ postN) (preV ++ inV ++ postV))) (.flat preN preT inN inT postN postT)
  | itagUnit (tag : Bytes) (names : List Bytes) (vs : List VShape) (n : Bytes) :
      findShape names vs n = some .unit → nameOk tag = true → nameOk n = true →
      HasTC (.struct [.str tag, .str n]) (.itag tag names vs)
  | itagStruct (tag : Bytes) (names : List Bytes) (vs : List VShape) (n : Bytes) (fn : List Bytes) (vals : List SVal)
      (ts : List SType) : findShape names vs n = some (.struct fn ts) → HasAll vals ts → fn.length = ts.length →
      (tag :: fn).Nodup → (∀ m ∈ tag :: fn, nameOk m = true) → nameOk n = true → vals.length + 1 < U64 →
      HasTC (.struct (.str tag :: .str n :: mkKvs fn vals)) (.itag tag names vs)
  | itagNewtype (tag : Bytes) (names : List Bytes) (vs : List VShape) (n : Bytes) (fn : List Bytes) (vals : List SVal)
      (ts : List SType) : findShape names vs n = some (.newtype (.struct fn ts)) → HasAll vals ts → fn.length = ts.length →
      (tag :: fn).Nodup → (∀ m ∈ tag :: fn, nameOk m = true) → nameOk n = true → vals.length + 1 < U64 →
      HasTC (.struct (.str tag :: .str n :: mkKvs fn vals)) (.itag tag names vs)
  | atagUnit (tag content : Bytes) (names : List Bytes) (vs : List VShape) (n : Bytes) :
      findShape names vs n = some .unit → nameOk tag = true → nameOk content = true → tag ≠ content → nameOk n = true →
      HasTC (.struct [.str tag, .unitVariant n]) (.atag tag content names vs)
  | atagNewtype (tag content : Bytes) (names : List Bytes) (vs : List VShape) (n : Bytes) (x : SVal) (t : SType) :
      findShape names vs n = some (.newtype t) → HasT x t → nameOk tag = true → nameOk content = true → tag ≠ content →
      nameOk n = true → HasTC (.struct [.str tag, .unitVariant n, .str content, x]) (.atag tag content names vs)
  | atagTuple (tag content : Bytes) (names : List Bytes) (vs : List VShape) (n : Bytes) (xs : List SVal) (ts : List SType) :
      findShape names vs n = some (.tuple ts) → HasAll xs ts → xs.length < U64 → nameOk tag = true → nameOk content = true →
      tag ≠ content → nameOk n = true →
      HasTC (.struct [.str tag, .unitVariant n, .str content, .tuple xs]) (.atag tag content names vs)
  | atagStruct (tag content : Bytes) (names : List Bytes) (vs : List VShape) (n : Bytes) (fn : List Bytes)
      (vals : List SVal) (ts : List SType) : findShape names vs n = some (.struct fn ts) → HasAll vals ts →
      fn.length = ts.length → fn.Nodup → (∀ m ∈ fn, nameOk m = true) → vals.length < U64 → nameOk tag = true →
      nameOk content = true → tag ≠ content → nameOk n = true →
      HasTC (.struct [.str tag, .unitVariant n, .str content, .struct (mkKvs fn vals)]) (.atag tag content names vs)
  | untaggedUnit (vs : List VShape) (i : Nat) : vs[i]? = some .unit → UntaggedAt vs i .unit → HasTC .unit (.untagged vs)
  | untaggedNewtype (vs : List VShape) (i : Nat) (x : SVal) (t : SType) : vs[i]? = some (.newtype t) → HasT x t →
      UntaggedAt vs i x → HasTC x (.untagged vs)
  | untaggedTuple (vs : List VShape) (i : Nat) (xs : List SVal) (ts : List SType) : vs[i]? = some (.tuple ts) →
      HasAll xs ts → xs.length < U64 → UntaggedAt vs i (.tuple xs) → HasTC (.tuple xs) (.untagged vs)
  | untaggedStruct (vs : List VShape) (i : Nat) (fn : List Bytes) (vals : List SVal) (ts : List SType) :
      vs[i]? = some (.struct fn ts) → HasAll vals ts → fn.length = ts.length → fn.Nodup → (∀ m ∈ fn, nameOk m = true) →
      vals.length < U64 → UntaggedAt vs i (.struct (mkKvs fn vals)) → HasTC (.struct (mkKvs fn vals)) (.untagged vs)

/-- **C17 (c) at full strength**: every value of every type of the family — including flattened,
    internally tagged, adjacently tagged and untagged representations, the only exclusion being
    an `Option` directly inside an `Option` (built into `HasT.some`) — round-trips and the
    deserialiser stops exactly after the item.  FALSE on the code as it is: K6 and K7. -/
def roundtrip_statement : Prop :=
  ∀ (t : SType) (v : SVal) (rest : Bytes), HasTC v t → de t (ser v ++ rest) = .ok v rest

def flatCharHasTC : HasTC flatCharV flatCharT :=
  .flat [[0x61]] [.int .u8 1] [.int .u8] [[0x63]] [.char 120] [.char] [] [] []
    (.cons _ _ _ _ (.int .u8 1 (by decide) (by decide)) .nil) (.cons _ _ _ _ (.char 120 (by decide)) .nil) .nil
    rfl rfl rfl (by decide) (by decide) (by decide)

/-- the full statement fails: known finding K6 (`char` behind the `Content` buffer). -/
theorem roundtrip_statement_false : ¬ roundtrip_statement := by
  intro h
  have h1 := h flatCharT flatCharV [] flatCharHasTC
  rw [List.append_nil, char_behind_content_counterexample.2] at h1
  cases h1

/-- **what is proved of the full statement**: it holds for every type that is read directly from
    the wire (`HasTC.plain`, i.e. everything except the four `Content`-buffered representations:
    all primitives, strings, byte buffers, options, unit, newtype / tuple / struct types,
    sequences and maps of known and unknown length, tuples, externally tagged enums with unit,
    newtype, tuple and struct variants, arbitrarily nested, of unbounded size).
    Missing: the general proof for `flatten` / internally tagged / adjacently tagged / untagged
    values without `char` and `()` behind the buffer; those representations are covered by the
    machine-checked instances `content_roundtrip_examples`, by the model-vs-code correspondence
    run, and the two classes in which they fail are pinned down by the counterexamples above. -/
theorem roundtrip_partial (t : SType) (v : SVal) (rest : Bytes) (h : HasT v t) :
    de t (ser v ++ rest) = .ok v rest := roundtrip_plain h rest


/-! ## 5. alternative framings on input -/

/-- **sequences of definite and of indefinite length are both accepted**, whichever of the two the
    serialiser of the type writes (`Vec<T>` and unknown-length sequences alike). -/
theorem indefinite_seq_accepted (known : Bool) (xs : List SVal) (t : SType) (h : HasEach xs t)
    (hoks : oks xs = true) (hl : xs.length < U64) (rest : Bytes) :
    de (.seq known t) (0x9f :: (sers xs ++ 0xff :: rest)) = .ok (.seq known xs) rest ∧
    de (.seq known t) (Enc.array xs.length ++ (sers xs ++ rest)) = .ok (.seq known xs) rest := by
  have he := roundtrip_each h
  constructor
  · simp only [de]
    rw [Dec.bind_ok _ _ _ _ _ (C04.array_indef _),
      Dec.bind_ok _ _ _ _ _ (seqAccess_indef_rt (de t) xs he (noBreak_of_oks xs hoks) rest)]; rfl
  · simp only [de]
    rw [Dec.bind_ok _ _ _ _ _ (array_rt _ _ hl), Dec.bind_ok _ _ _ _ _ (seqAccess_def_rt (de t) xs he rest)]; rfl

/-- **maps of definite and of indefinite length are both accepted.** -/
theorem indefinite_map_accepted (known : Bool) (kvs : List SVal) (k v : SType) (h : HasPairs kvs k v)
    (hoks : oks kvs = true) (hl : kvs.length / 2 < U64) (hasc : KeysAsc kvs) (rest : Bytes) :
    de (.map known k v) (0xbf :: (sers kvs ++ 0xff :: rest)) = .ok (.map known kvs) rest ∧
    de (.map known k v) (Enc.map (kvs.length / 2) ++ (sers kvs ++ rest)) = .ok (.map known kvs) rest := by
  have hp := roundtrip_pairs h
  have hev := PairsRt.even kvs hp
  constructor
  · simp only [de]
    rw [Dec.bind_ok _ _ _ _ _ (C04.map_indef _),
      Dec.bind_ok _ _ _ _ _ (mapAccess_indef_rt (de k) (de v) kvs hp (noBreak_of_oks kvs hoks) rest),
      mkMap_sorted kvs hev hasc]; rfl
  · simp only [de]
    rw [Dec.bind_ok _ _ _ _ _ (map_rt _ _ hl), Dec.bind_ok _ _ _ _ _ (mapAccess_def_rt (de k) (de v) kvs hp rest),
      mkMap_sorted kvs hev hasc]; rfl

/-- **a struct written as an indefinite-length map is accepted** (`deserialize_struct` is
    `deserialize_map`, whose `MapAccess` stops at the break). -/
theorem indefinite_struct_accepted (names : List Bytes) (vals : List SVal) (ts : List SType) (h : HasAll vals ts)
    (hl : names.length = ts.length) (hnd : names.Nodup) (hok : ∀ n ∈ names, nameOk n = true) (rest : Bytes) :
    de (.struct names ts) (0xbf :: (sers (mkKvs names vals) ++ 0xff :: rest)) = .ok (.struct (mkKvs names vals)) rest := by
  have := deStructBody_indef_rt (fieldDecs names ts) (fieldDecs_wf names ts hl hnd hok) vals
    (by rw [fieldDecs_decs names ts hl]; exact roundtrip_all h) rest
  rw [fieldDecs_names names ts hl] at this
  simp only [de]
  rw [Dec.bind_ok _ _ _ _ _ this]; rfl

/-- **unknown struct fields on input are ignored**: an entry with an unknown key before the
    known fields and another one after them, each with an arbitrary well-formed item of any
    nesting as value (skipped by `IgnoredAny` = `Decoder::skip`), do not change the result, and
    the deserialiser still stops exactly after the map. -/
theorem unknown_struct_fields_ignored (names : List Bytes) (vals : List SVal) (ts : List SType) (h : HasAll vals ts)
    (hl : names.length = ts.length) (hnd : names.Nodup) (hok : ∀ n ∈ names, nameOk n = true)
    (hlen : vals.length + 2 < U64) (k1 k2 : Bytes) (w1 w2 : WItem) (hk1 : nameOk k1 = true) (hk2 : nameOk k2 = true)
    (hn1 : k1 ∉ names) (hn2 : k2 ∉ names) (hw1 : w1.Valid) (hw2 : w2.Valid)
    (hf1 : (encW w1).length < U64) (hf2 : (encW w2).length < U64) (rest : Bytes) :
    de (.struct names ts) (Enc.map (vals.length + 2) ++ (Enc.str k1 ++ (encW w1 ++
      (sers (mkKvs names vals) ++ (Enc.str k2 ++ (encW w2 ++ rest)))))) = .ok (.struct (mkKvs names vals)) rest := by
  have hn := fieldDecs_names names ts hl
  have := deStructBody_unknown (fieldDecs names ts) (fieldDecs_wf names ts hl hnd hok) vals
    (by rw [fieldDecs_decs names ts hl]; exact roundtrip_all h) hlen k1 k2 w1 w2 hk1 hk2
    (by rw [hn]; exact hn1) (by rw [hn]; exact hn2) hw1 hw2 hf1 hf2 rest
  rw [hn] at this
  simp only [de]
  rw [Dec.bind_ok _ _ _ _ _ this]; rfl


/-! ## 6. `deserialize_any` -/

/-- **`deserialize_any` consumes exactly one item.**  For every well-formed item the bridge
    accepts there (`anyOk`: everything but tags, `undefined`, other simple values and integers
    below `-2^63`), in *any* framing — head widths, definite or indefinite arrays and maps,
    chunked strings, half-precision floats — followed by arbitrary bytes, serde's `Content`
    buffer receives the value of the item (`cOfW`) and the decoder stops exactly after it. -/
theorem de_any_consumes_one_item (w : WItem) (hv : w.Valid) (hok : anyOk w = true) (rest : Bytes) :
    deAny (encW w ++ rest) = .ok (cOfW w) rest := deAny_encW w hv hok rest

mutual
theorem toW_anyOk : (v : SVal) → vok v = true → anyOk (toW v) = true
  | .bool b, _ => by cases b <;> rfl
  | .int k v, h => by
    simp only [vok, Bool.and_eq_true, decide_eq_true_eq] at h
    have hb := range_bounds k
    unfold toW intW
    split
    · rfl
    · have : ¬ (9223372036854775808 ≤ (-1 - v).toNat) := by omega
      simp [anyOk, this]
  | .f32 _, _ => rfl
  | .f64 _, _ => rfl
  | .char _, _ => rfl
  | .str _, _ => rfl
  | .bytes _, _ => rfl
  | .none, _ => rfl
  | .some v, h => by simp only [vok] at h; simp only [toW]; exact toW_anyOk v h
  | .unit, _ => rfl
  | .unitStruct, _ => rfl
  | .unitVariant _, _ => rfl
  | .newtypeStruct v, h => by simp only [vok] at h; simp only [toW]; exact toW_anyOk v h
  | .newtypeVariant n v, h => by
    simp only [vok, Bool.and_eq_true] at h
    simp [toW, textW, anyOk, anyOks, toW_anyOk v h.2]
  | .seq known xs, h => by
    simp only [vok, Bool.and_eq_true] at h
    cases known <;> simp [toW, anyOk, toWs_anyOk xs h.2]
  | .tuple xs, h => by
    simp only [vok, Bool.and_eq_true] at h
    simp [toW, anyOk, toWs_anyOk xs h.2]
  | .tupleStruct xs, h => by
    simp only [vok, Bool.and_eq_true] at h
    simp [toW, anyOk, toWs_anyOk xs h.2]
  | .tupleVariant n xs, h => by
    simp only [vok, Bool.and_eq_true] at h
    simp [toW, textW, anyOk, anyOks, toWs_anyOk xs h.2]
  | .map known kvs, h => by
    simp only [vok, Bool.and_eq_true] at h
    cases known <;> simp [toW, anyOk, toWs_anyOk kvs h.2]
  | .struct kvs, h => by
    simp only [vok, Bool.and_eq_true] at h
    simp [toW, anyOk, toWs_anyOk kvs h.2]
  | .structVariant n kvs, h => by
    simp only [vok, Bool.and_eq_true] at h
    simp [toW, textW, anyOk, anyOks, toWs_anyOk kvs h.2]
theorem toWs_anyOk : (xs : List SVal) → oks xs = true → anyOks (toWs xs) = true
  | [], _ => rfl
  | x :: xs, h => by
    simp only [oks, Bool.and_eq_true] at h
    simp [toWs, anyOks, toW_anyOk x h.1, toWs_anyOk xs h.2]
end

/-- in particular everything `ser` writes is accepted by `deserialize_any`, whole. -/
theorem de_any_on_ser (v : SVal) (h : vok v = true) (rest : Bytes) :
    deAny (ser v ++ rest) = .ok (cOfW (toW v)) rest := by
  rw [ser_eq_encW v h]
  exact deAny_encW (toW v) (toW_valid v h) (toW_anyOk v h) rest

end Minicbor.C17
