/-
  C15 — AsyncReader is cancellation-safe: no frame lost, duplicated or torn.
  Property theorems only.  Model: `Minicbor/Frame.lean` (`AReader.poll`, `RSys.run`);
  invariant and the poll-loop specification: `Lemmas/AsyncRead.lean` (`Step`, `pollLoop_spec`,
  proved by induction over source scripts of arbitrary length).

  A *schedule* is a pair: the source script (`List Ev`: deliver up to k bytes / Pending /
  transient error / …, one event per `poll_read`) and the caller's decisions (`List RAct`:
  poll the read future — issuing `read()` if none is alive — or drop it).  An async source
  whose script is exhausted stays `Pending`, so fairness ("the source eventually delivers") is
  the explicit hypothesis that the script is not exhausted at the end of the run.
-/
import Minicbor.Lemmas.AsyncRead

namespace Minicbor.C15
open Minicbor.Frame

/-! ## dropping a future -/

/-- **Dropping the pending read future is the identity on the reader** (the future has no
    fields: `ReadFut`), and is not observable. -/
theorem drop_is_identity (c : Codec α) (s : RSys) :
    (s.act c .drop).1.rd = s.rd ∧ (s.act c .drop).2 = none := ⟨rfl, rfl⟩

theorem act_poll_fut (c : Codec α) (rd : AReader) (f f' : Option ReadFut) :
    (RSys.act c ⟨rd, f⟩ .poll) = (RSys.act c ⟨rd, f'⟩ .poll) := by
  simp only [RSys.act]

theorem run_fut_irrelevant (c : Codec α) (acts : List RAct) (rd : AReader) (f f' : Option ReadFut) :
    (RSys.run c acts ⟨rd, f⟩).1 = (RSys.run c acts ⟨rd, f'⟩).1 ∧
    (RSys.run c acts ⟨rd, f⟩).2.rd = (RSys.run c acts ⟨rd, f'⟩).2.rd := by
  cases acts with
  | nil => exact ⟨rfl, rfl⟩
  | cons a as =>
    cases a with
    | poll => simp only [RSys.run, act_poll_fut c rd f f', and_self]
    | drop => simp only [RSys.run, RSys.act, and_self]

/-- **The drop decisions of a schedule are irrelevant**: what the polls return, and the final
    reader, are those of the schedule with all drops removed. -/
theorem run_drop_irrelevant (c : Codec α) : ∀ (acts : List RAct) (s : RSys),
    (RSys.run c acts s).1.filterMap id = (RSys.run c (acts.filter (· = .poll)) s).1.filterMap id ∧
    (RSys.run c acts s).2.rd = (RSys.run c (acts.filter (· = .poll)) s).2.rd := by
  intro acts
  induction acts with
  | nil => intro s; exact ⟨rfl, rfl⟩
  | cons a as ih =>
    intro s
    cases a with
    | poll =>
      have := ih (s.act c .poll).1
      simp only [RSys.run, List.filter_cons_of_pos, decide_true, List.filterMap_cons]
      cases h : (s.act c .poll).2 <;> simp [this.1, this.2]
    | drop =>
      have h1 := ih ⟨s.rd, none⟩
      have h2 := run_fut_irrelevant c (as.filter (· = .poll)) s.rd none s.fut
      have hf : (RAct.drop :: as).filter (· = .poll) = as.filter (· = .poll) := by simp
      rw [hf]
      simp only [RSys.run, RSys.act, List.filterMap_cons, id]
      exact ⟨by rw [h1.1, h2.1], by rw [h1.2, h2.2]⟩

/-! ## one poll -/

/-- **What one poll does to the represented stream**, for every source behaviour: with
    `S = stored part of the current frame ++ undelivered bytes`, the poll either returns
    nothing / a transient error / an end-of-stream answer and still represents `S`, or
    returns the decoding of the first frame of `S` and represents the rest, or rejects an
    oversized first frame. -/
theorem poll_inv (c : Codec α) (rd : AReader) (hw : Wf rd.core) :
    Step c (pb rd.core ++ rd.src.bytes) rd.core.maxLen (AOk rd.src.script)
      (rd.poll c).1 (rd.poll c).2.core (rd.poll c).2.src.bytes := by
  unfold AReader.poll
  rw [settle_wf c _ hw]
  exact pollLoop_spec c _ _ _ hw

/-- a poll consumes script events; it never puts any back, keeps a well-behaved script
    well-behaved, and unless it runs into the end of the script it pays one `Pending` event per
    `Pending` answer and one error event per transient error. -/
theorem poll_script_suffix (c : Codec α) (rd : AReader) (hw : Wf rd.core) :
    (AOk rd.src.script → AOk (rd.poll c).2.src.script) ∧
    (rd.src.script = [] → (rd.poll c).2.src.script = []) ∧
    ((rd.poll c).2.src.script ≠ [] →
      countP (rd.poll c).2.src.script + (pollCost (rd.poll c).1).1 ≤ countP rd.src.script ∧
      countE (rd.poll c).2.src.script + (pollCost (rd.poll c).1).2 ≤ countE rd.src.script) := by
  unfold AReader.poll
  rw [settle_wf c _ hw]
  exact ⟨pollLoop_aok c _ _ _, (pollLoop_script c _ _ _).2, (pollLoop_script c _ _ _).1⟩

/-- **A transient error is reported once, by the poll that met it, and nothing else happens**:
    state, buffer and stream position are exactly what they were, so the next poll resumes at
    the same offset as if the error had not occurred. -/
theorem transient_error_once (c : Codec α) (core : ARCore) (bytes : Bytes) (sc : List Ev) (hw : Wf core) :
    AReader.poll c ⟨core, ⟨bytes, .fail :: sc⟩⟩ = (.ready (.error (.io .other)), ⟨core, ⟨bytes, sc⟩⟩) ∧
    AReader.poll c ⟨core, ⟨bytes, .intr :: sc⟩⟩ = (.ready (.error (.io .interrupted)), ⟨core, ⟨bytes, sc⟩⟩) := by
  unfold AReader.poll
  simp only [settle_wf c _ hw, pollLoop, and_self]

/-- … and the reads after it return what they would have returned without it. -/
theorem transient_error_resumes (c : Codec α) (core : ARCore) (bytes : Bytes) (sc : List Ev) (hw : Wf core)
    (acts : List RAct) (f : Option ReadFut) :
    (RSys.run c (.poll :: acts) ⟨⟨core, ⟨bytes, .fail :: sc⟩⟩, f⟩).1 =
      some (.ready (.error (.io .other))) :: (RSys.run c acts ⟨⟨core, ⟨bytes, sc⟩⟩, none⟩).1 := by
  simp only [RSys.run, RSys.act, (transient_error_once c core bytes sc hw).1]

/-! ## runs -/

/-- the results a caller acts on: what completed reads returned, transient I/O errors aside. -/
def dataResults : List (Option (Poll (Except FErr (Option α)))) → List (Except FErr (Option α))
  | [] => []
  | some (.ready x) :: os => if isTransient x then dataResults os else x :: dataResults os
  | _ :: os => dataResults os

/-- number of polls in a schedule. -/
def polls : List RAct → Nat
  | [] => 0
  | .poll :: as => polls as + 1
  | .drop :: as => polls as

/-- how the stream ends behind its complete frames: cleanly, or strictly inside a frame
    (in the prefix or in the payload); with the result the reader must then give. -/
inductive Ending (ml : Nat) : Bytes → Except FErr (Option α) → Prop
  | clean : Ending ml [] (.ok none)
  | cut (p t : Bytes) : t <+: frame p → t ≠ [] → t ≠ frame p → p.length ≤ ml → p.length < 4294967296 →
      Ending ml t (.error (.io .unexpectedEof))

def Quiet (x : Poll (Except FErr (Option α))) : Prop :=
  x = .pending ∨ x = .ready (.error (.io .other)) ∨ x = .ready (.error (.io .interrupted))

theorem pb_length_lt (r : ARCore) (hw : Wf r) :
    match r.state with
    | .readLen _ _ => (pb r).length < 4
    | .readVal o => pb r = be 4 r.buffer.length ++ r.buffer.take o ∧ o < r.buffer.length ∧
        r.buffer.length ≤ r.maxLen ∧ r.buffer.length < 4294967296 := by
  obtain ⟨hb, hw⟩ := hw
  cases hs : r.state with
  | readLen buf o => rw [hs] at hw; simp only [pb, hs, List.length_take]; omega
  | readVal o => rw [hs] at hw; simp only [pb, hs]; exact ⟨trivial, hw.1, hb, hw.2⟩

theorem eofRes_of_pb_nil (r : ARCore) (hw : Wf r) (h : pb r = []) : r.eofRes (α := α) = .ok none := by
  obtain ⟨_, hw⟩ := hw
  unfold ARCore.eofRes
  cases hs : r.state with
  | readLen buf o =>
    rw [hs] at hw
    simp only [pb, hs] at h
    have : o = 0 := by
      rcases List.take_eq_nil_iff.mp h with h | h
      · exact h
      · rw [h] at hw; simp at hw
    simp [this]
  | readVal o =>
    simp only [pb, hs] at h
    have := congrArg List.length h
    simp at this

theorem eofRes_of_pb_ne (r : ARCore) (h : pb r ≠ []) :
    r.eofRes (α := α) = .error (.io .unexpectedEof) := by
  unfold ARCore.eofRes
  cases hs : r.state with
  | readLen buf o =>
    simp only [pb, hs] at h
    have : o ≠ 0 := by intro h0; subst h0; simp at h
    simp [this]
  | readVal o => rfl

/-- a well-formed state never holds a complete frame. -/
theorem pb_not_frame (r : ARCore) (hw : Wf r) (p rest : Bytes) (h32 : p.length < 4294967296) :
    pb r ≠ frame p ++ rest := by
  intro h
  have := pb_length_lt r hw
  cases hs : r.state with
  | readLen buf o =>
    rw [hs] at this
    have hl := congrArg List.length h
    simp at hl this
    omega
  | readVal o =>
    rw [hs] at this
    obtain ⟨e, ho, _, hlen⟩ := this
    rw [e, frame, List.append_assoc] at h
    obtain ⟨h1, h2⟩ := be4_inj _ _ _ _ hlen h32 h
    have hl := congrArg List.length h2
    simp at hl
    omega

/-- a well-formed state never holds an oversized prefix. -/
theorem pb_not_oversize (r : ARCore) (hw : Wf r) (len : Nat) (rest : Bytes)
    (hbig : len > r.maxLen) (h32 : len < 4294967296) : pb r ≠ be 4 len ++ rest := by
  intro h
  have := pb_length_lt r hw
  cases hs : r.state with
  | readLen buf o =>
    rw [hs] at this
    have hl := congrArg List.length h
    simp at hl this
    omega
  | readVal o =>
    rw [hs] at this
    obtain ⟨e, _, hmax, hlen⟩ := this
    rw [e] at h
    obtain ⟨h1, _⟩ := be4_inj _ _ _ _ hlen h32 h
    omega

/-- a poll on a stream that starts with a complete, admissible frame. -/
theorem step_frame_first {c : Codec α} {p rest : Bytes} {ml : Nat} {E : Prop}
    {x : Poll (Except FErr (Option α))} {r' : ARCore} {b' : Bytes}
    (hE : E) (hp : p.length ≤ ml) (h32 : p.length < 4294967296)
    (hs : Step c (frame p ++ rest) ml E x r' b') :
    (Quiet x ∧ Wf r' ∧ r'.maxLen = ml ∧ pb r' ++ b' = frame p ++ rest) ∨
    (x = .ready (decodeRes c p) ∧ r' = ⟨.new, p, ml⟩ ∧ b' = rest) := by
  cases hs with
  | stay x r' b' hw hm hS hx =>
    rcases hx with h | h | h | ⟨_, hb⟩
    · exact .inl ⟨.inl h, hw, hm, hS⟩
    · exact .inl ⟨.inr (.inl h), hw, hm, hS⟩
    · exact .inl ⟨.inr (.inr h), hw, hm, hS⟩
    · have := hb hE
      subst this
      rw [List.append_nil] at hS
      exact absurd hS (pb_not_frame r' hw p rest h32)
  | frame q _ hS hq hq32 =>
    obtain ⟨h1, h2⟩ := frame_inj _ _ _ _ h32 hq32 hS
    subst h1; subst h2
    exact .inr ⟨rfl, rfl, rfl⟩
  | oversize len _ r' hbig hl32 hS _ _ =>
    rw [frame, List.append_assoc] at hS
    obtain ⟨h1, _⟩ := be4_inj _ _ _ _ h32 hl32 hS
    omega

/-- a poll on a stream that has no complete frame left. -/
theorem step_ending {c : Codec α} {t : Bytes} {ml : Nat} {E : Prop} {fin : Except FErr (Option α)}
    {x : Poll (Except FErr (Option α))} {r' : ARCore} {b' : Bytes}
    (hE : E) (he : Ending ml t fin) (hs : Step c t ml E x r' b') :
    (Wf r' ∧ r'.maxLen = ml ∧ pb r' ++ b' = t) ∧ (Quiet x ∨ x = .ready fin) := by
  cases hs with
  | stay x r' b' hw hm hS hx =>
    refine ⟨⟨hw, hm, hS⟩, ?_⟩
    rcases hx with h | h | h | ⟨hx, hb⟩
    · exact .inl (.inl h)
    · exact .inl (.inr (.inl h))
    · exact .inl (.inr (.inr h))
    · have := hb hE
      subst this
      rw [List.append_nil] at hS
      right
      cases he with
      | clean => rw [hx, eofRes_of_pb_nil r' hw hS]
      | cut p t _ hne _ _ _ => rw [hx, eofRes_of_pb_ne r' (by rw [hS]; exact hne)]
  | frame q _ hS hq hq32 =>
    exfalso
    cases he with
    | clean => have := congrArg List.length hS; simp at this; omega
    | cut p t hpre _ hcut _ hp32 =>
      obtain ⟨s, hs⟩ := hpre
      rw [hS, List.append_assoc] at hs
      have := frame_inj q p (b' ++ s) [] hq32 hp32 (by simpa using hs)
      obtain ⟨h1, h2⟩ := this
      have hr : b' = [] := (List.append_eq_nil_iff.mp h2).1
      subst h1; subst hr
      exact hcut (by simpa using hS)
  | oversize len _ r' hbig hl32 hS _ _ =>
    exfalso
    cases he with
    | clean => have := congrArg List.length hS; simp at this; omega
    | cut p t hpre _ _ hpml hp32 =>
      obtain ⟨s, hs⟩ := hpre
      rw [hS, List.append_assoc, frame] at hs
      obtain ⟨h1, _⟩ := be4_inj _ _ _ _ hl32 hp32 hs
      omega

theorem prefix_replicate_succ {β : Type} (xs A : List β) (z : β) (n : Nat)
    (h : xs <+: A ++ List.replicate n z) : xs <+: A ++ List.replicate (n + 1) z := by
  obtain ⟨s, hs⟩ := h
  exact ⟨s ++ [z], by rw [← List.append_assoc, hs, List.append_assoc, List.replicate_succ']⟩

/-- **The run theorem** (induction over the caller's decisions, the poll specification being
    an induction over the source script).  From any state that represents the stream
    `frames ps ++ t`: the results form a prefix of "the decoding of each payload in order,
    then the ending's result for ever", and — fairness — unless the source script ran out,
    every poll that did not produce such a result is paid for by a `Pending` or error event. -/
theorem run_spec (c : Codec α) (ml : Nat) (t : Bytes) (fin : Except FErr (Option α)) (he : Ending ml t fin)
    (hfin : isTransient fin = false) :
    ∀ (acts : List RAct) (ps : List Bytes) (s : RSys),
    Wf s.rd.core → s.rd.core.maxLen = ml → pb s.rd.core ++ s.rd.src.bytes = frames ps ++ t →
    AOk s.rd.src.script → (∀ p ∈ ps, p.length ≤ ml ∧ p.length < 4294967296) →
    dataResults (RSys.run c acts s).1 <+: ps.map (decodeRes c) ++ List.replicate acts.length fin ∧
    ((RSys.run c acts s).2.rd.src.script ≠ [] →
      polls acts + countP (RSys.run c acts s).2.rd.src.script + countE (RSys.run c acts s).2.rd.src.script
        ≤ (dataResults (RSys.run c acts s).1).length + countP s.rd.src.script + countE s.rd.src.script) ∧
    (s.rd.src.script = [] → (RSys.run c acts s).2.rd.src.script = []) := by
  intro acts
  induction acts with
  | nil =>
    intro ps s _ _ _ _ _
    simp [RSys.run, dataResults, polls]
  | cons a as ih =>
    intro ps s hw hm hS hok hfit
    cases a with
    | drop =>
      obtain ⟨i1, i2, i3⟩ := ih ps ⟨s.rd, none⟩ hw hm hS hok hfit
      simp only [RSys.run, RSys.act, dataResults, polls, List.length_cons]
      exact ⟨prefix_replicate_succ _ _ _ _ i1, i2, i3⟩
    | poll =>
      have hstep := poll_inv c s.rd hw
      obtain ⟨sa, sb, sc⟩ := poll_script_suffix c s.rd hw
      rw [hS, hm] at hstep
      -- the state after the poll, whatever the future bookkeeping
      have hrun : ∀ f, (RSys.run c (.poll :: as) s).1 =
            some (s.rd.poll c).1 :: (RSys.run c as ⟨(s.rd.poll c).2, f⟩).1 ∧
          (RSys.run c (.poll :: as) s).2.rd = (RSys.run c as ⟨(s.rd.poll c).2, f⟩).2.rd := by
        intro f
        simp only [RSys.run, RSys.act]
        cases hp : s.rd.poll c with
        | mk x rd' =>
          cases x with
          | pending => exact ⟨by rw [(run_fut_irrelevant c as rd' _ f).1], (run_fut_irrelevant c as rd' _ f).2⟩
          | ready y => exact ⟨by rw [(run_fut_irrelevant c as rd' _ f).1], (run_fut_irrelevant c as rd' _ f).2⟩
      obtain ⟨hr1, hr2⟩ := hrun none
      rw [hr1, hr2]
      -- accounting helper: once the script is empty it stays empty
      have hnil : s.rd.src.script = [] → (RSys.run c as ⟨(s.rd.poll c).2, none⟩).2.rd.src.script = [] → True :=
        fun _ _ => trivial
      cases ps with
      | nil =>
        simp only [frames, List.nil_append] at hstep
        obtain ⟨⟨hw', hm', hS'⟩, hx⟩ := step_ending hok he hstep
        obtain ⟨i1, i2, i3⟩ := ih [] ⟨(s.rd.poll c).2, none⟩ hw' hm' (by simpa [frames] using hS') (sa hok) hfit
        refine ⟨?_, ?_, fun h => i3 (sb h)⟩
        · rcases hx with hq | hq
          · have : dataResults (some (s.rd.poll c).1 :: (RSys.run c as ⟨(s.rd.poll c).2, none⟩).1) =
                dataResults (RSys.run c as ⟨(s.rd.poll c).2, none⟩).1 := by
              rcases hq with h | h | h <;> rw [h] <;> simp [dataResults, isTransient]
            rw [this]
            exact prefix_replicate_succ _ _ _ _ i1
          · have : dataResults (some (s.rd.poll c).1 :: (RSys.run c as ⟨(s.rd.poll c).2, none⟩).1) =
                fin :: dataResults (RSys.run c as ⟨(s.rd.poll c).2, none⟩).1 := by
              rw [hq]; simp [dataResults, hfin]
            rw [this]
            simp only [List.map_nil, List.nil_append, List.length_cons, List.replicate_succ] at i1 ⊢
            exact List.prefix_cons_inj fin |>.mpr i1
        · intro hne
          have hne' : (s.rd.poll c).2.src.script ≠ [] := fun h => hne (i3 h)
          obtain ⟨c1, c2⟩ := sc hne'
          have i2' := i2 hne
          dsimp only at i2'
          rcases hx with hq | hq
          · have : dataResults (some (s.rd.poll c).1 :: (RSys.run c as ⟨(s.rd.poll c).2, none⟩).1) =
                dataResults (RSys.run c as ⟨(s.rd.poll c).2, none⟩).1 := by
              rcases hq with h | h | h <;> rw [h] <;> simp [dataResults, isTransient]
            rw [this]
            simp only [polls]
            rcases hq with h | h | h <;> rw [h] at c1 c2 <;> simp [pollCost, isTransient] at c1 c2 <;> omega
          · have : dataResults (some (s.rd.poll c).1 :: (RSys.run c as ⟨(s.rd.poll c).2, none⟩).1) =
                fin :: dataResults (RSys.run c as ⟨(s.rd.poll c).2, none⟩).1 := by
              rw [hq]; simp [dataResults, hfin]
            rw [this]
            simp only [polls, List.length_cons]
            rw [hq] at c1 c2
            simp [pollCost, hfin] at c1 c2
            omega
      | cons p ps =>
        have hp := hfit p (by simp)
        simp only [frames, List.append_assoc] at hstep
        rcases step_frame_first hok hp.1 hp.2 hstep with ⟨hq, hw', hm', hS'⟩ | ⟨hx, hr', hb'⟩
        · obtain ⟨i1, i2, i3⟩ := ih (p :: ps) ⟨(s.rd.poll c).2, none⟩ hw' hm'
            (by simpa [frames, List.append_assoc] using hS') (sa hok) hfit
          have : dataResults (some (s.rd.poll c).1 :: (RSys.run c as ⟨(s.rd.poll c).2, none⟩).1) =
              dataResults (RSys.run c as ⟨(s.rd.poll c).2, none⟩).1 := by
            rcases hq with h | h | h <;> rw [h] <;> simp [dataResults, isTransient]
          rw [this]
          refine ⟨prefix_replicate_succ _ _ _ _ i1, ?_, fun h => i3 (sb h)⟩
          intro hne
          have hne' : (s.rd.poll c).2.src.script ≠ [] := fun h => hne (i3 h)
          obtain ⟨c1, c2⟩ := sc hne'
          have i2' := i2 hne
          dsimp only at i2'
          simp only [polls]
          rcases hq with h | h | h <;> rw [h] at c1 c2 <;> simp [pollCost, isTransient] at c1 c2 <;> omega
        · obtain ⟨i1, i2, i3⟩ := ih ps ⟨(s.rd.poll c).2, none⟩
            (by rw [hr']; exact Wf.fresh p ml hp.1) (by rw [hr'])
            (by rw [hr', hb']; simp) (sa hok) (fun q hq => hfit q (by simp [hq]))
          have : dataResults (some (s.rd.poll c).1 :: (RSys.run c as ⟨(s.rd.poll c).2, none⟩).1) =
              decodeRes c p :: dataResults (RSys.run c as ⟨(s.rd.poll c).2, none⟩).1 := by
            rw [hx]; simp [dataResults, decodeRes_not_transient]
          rw [this]
          refine ⟨?_, ?_, fun h => i3 (sb h)⟩
          · simp only [List.map_cons, List.cons_append, List.length_cons]
            exact (List.prefix_cons_inj _).mpr (prefix_replicate_succ _ _ _ _ i1)
          · intro hne
            have hne' : (s.rd.poll c).2.src.script ≠ [] := fun h => hne (i3 h)
            obtain ⟨c1, c2⟩ := sc hne'
            have i2' := i2 hne
            dsimp only at i2'
            simp only [polls, List.length_cons]
            rw [hx] at c1 c2
            simp [pollCost, decodeRes_not_transient] at c1 c2
            omega

/-! ## the property -/

theorem init_rep (ml : Nat) (bytes : Bytes) (sc : List Ev) :
    Wf (AReader.init ml bytes sc).core ∧ (AReader.init ml bytes sc).core.maxLen = ml ∧
    pb (AReader.init ml bytes sc).core ++ (AReader.init ml bytes sc).src.bytes = bytes := by
  simp [AReader.init, Wf.init]

theorem prefix_tail_eq {β : Type} (xs A : List β) (z : β) (n : Nat) (h : xs <+: A ++ List.replicate n z) :
    (∀ x ∈ xs.drop A.length, x = z) ∧
    (A.length ≤ xs.length → xs = A ++ List.replicate (xs.length - A.length) z) := by
  have hx := List.prefix_iff_eq_take.mp h
  constructor
  · intro x hx'
    rw [hx, List.drop_take, List.drop_left'] at hx'
    · exact List.eq_of_mem_replicate (List.mem_of_mem_take hx')
    · rfl
  · intro hl
    have : xs.length ≤ A.length + n := by have := h.length_le; simpa using this
    conv => lhs; rw [hx]
    rw [List.take_append, List.take_of_length_le hl]
    congr 1
    rw [List.take_replicate]
    congr 1
    omega

/-- **Schedule independence.**  For every stream of frames `ps` (admissible for `max_len`),
    every source script in which bytes arrive in arbitrary pieces with `Pending`s and transient
    errors at arbitrary points, and every sequence of caller decisions (poll / drop the pending
    future and re-issue the read): the values the reads return are, in order, the decoding of
    `ps` — nothing lost, duplicated or torn — followed only by clean ends. -/
theorem async_reader_schedule_independent (c : Codec α) (ml : Nat) (ps : List Bytes) (sc : List Ev)
    (acts : List RAct) (hok : AOk sc) (hfit : ∀ p ∈ ps, p.length ≤ ml ∧ p.length < 4294967296) :
    dataResults (RSys.run c acts ⟨AReader.init ml (frames ps) sc, none⟩).1
      <+: ps.map (decodeRes c) ++ List.replicate acts.length (.ok none) := by
  obtain ⟨h1, h2, h3⟩ := init_rep ml (frames ps) sc
  exact (run_spec c ml [] (.ok none) .clean rfl acts ps ⟨AReader.init ml (frames ps) sc, none⟩ h1 h2
    (by rw [List.append_nil]; exact h3) hok hfit).1

/-- **… and nothing is withheld** (fairness): if the source script did not run out and the
    caller polled at least once per frame, once more for the end, and once per `Pending` and
    per transient error of the script, then *all* values were returned, followed by at least
    one clean end. -/
theorem async_reader_complete (c : Codec α) (ml : Nat) (ps : List Bytes) (sc : List Ev)
    (acts : List RAct) (hok : AOk sc) (hfit : ∀ p ∈ ps, p.length ≤ ml ∧ p.length < 4294967296)
    (hfair : (RSys.run c acts ⟨AReader.init ml (frames ps) sc, none⟩).2.rd.src.script ≠ [])
    (hpolls : ps.length + 1 + countP sc + countE sc ≤ polls acts) :
    ∃ k, 1 ≤ k ∧ dataResults (RSys.run c acts ⟨AReader.init ml (frames ps) sc, none⟩).1
      = ps.map (decodeRes c) ++ List.replicate k (.ok none) := by
  obtain ⟨h1, h2, h3⟩ := init_rep ml (frames ps) sc
  obtain ⟨r1, r2, _⟩ := run_spec c ml [] (.ok none) .clean rfl acts ps ⟨AReader.init ml (frames ps) sc, none⟩ h1 h2
    (by rw [List.append_nil]; exact h3) hok hfit
  have hacc := r2 hfair
  simp only [AReader.init] at hacc
  have hlen : (ps.map (decodeRes c)).length + 1 ≤
      (dataResults (RSys.run c acts ⟨AReader.init ml (frames ps) sc, none⟩).1).length := by
    simp only [List.length_map, AReader.init]; omega
  refine ⟨_, ?_, (prefix_tail_eq _ _ _ _ r1).2 (by omega)⟩
  omega

/-- `ps` are the payloads of `vs`, each within the maximum. -/
def Encodes (c : Codec α) (maxLen : Nat) : List α → List Bytes → Prop
  | [], [] => True
  | v :: vs, p :: ps => c.enc v = .ok p ∧ p.length ≤ maxLen ∧ p.length < 4294967296 ∧ Encodes c maxLen vs ps
  | _, _ => False

/-- **Round trip**: the sequence of values eventually returned equals the sequence written
    (for every codec whose decoder inverts its encoder; `C14.valCodec_roundtrip` for the
    one the harness runs). -/
theorem async_reader_roundtrip (c : Codec α) (hrt : ∀ v p, c.enc v = .ok p → c.dec p = .ok v)
    (ml : Nat) (vs : List α) (ps : List Bytes) (sc : List Ev) (acts : List RAct)
    (he : Encodes c ml vs ps) (hok : AOk sc) :
    dataResults (RSys.run c acts ⟨AReader.init ml (frames ps) sc, none⟩).1
      <+: vs.map (fun v => .ok (some v)) ++ List.replicate acts.length (.ok none) := by
  have key : ∀ (vs : List α) (ps : List Bytes), Encodes c ml vs ps →
      (∀ p ∈ ps, p.length ≤ ml ∧ p.length < 4294967296) ∧
      ps.map (decodeRes c) = vs.map (fun v => .ok (some v)) := by
    intro vs
    induction vs with
    | nil => intro ps he; cases ps with
      | nil => simp
      | cons => exact absurd he (by simp [Encodes])
    | cons v vs ih => intro ps he; cases ps with
      | nil => exact absurd he (by simp [Encodes])
      | cons p ps =>
        obtain ⟨hv, hl, h32, hrest⟩ := he
        obtain ⟨b, d⟩ := ih ps hrest
        refine ⟨?_, ?_⟩
        · intro q hq; cases hq with
          | head => exact ⟨hl, h32⟩
          | tail _ h => exact b q h
        · simp [decodeRes, hrt v p hv, d]
  obtain ⟨hfit, hmap⟩ := key vs ps he
  rw [← hmap]
  exact async_reader_schedule_independent c ml ps sc acts hok hfit

/-- **Truncation**: if the stream ends strictly inside a frame, then under every schedule the
    results are the values of the complete frames and after them only `UnexpectedEof` … -/
theorem async_truncation (c : Codec α) (ml : Nat) (ps : List Bytes) (p t : Bytes) (sc : List Ev)
    (acts : List RAct) (hok : AOk sc) (hfit : ∀ q ∈ ps ++ [p], q.length ≤ ml ∧ q.length < 4294967296)
    (ht : t <+: frame p) (hne : t ≠ []) (hcut : t ≠ frame p) :
    dataResults (RSys.run c acts ⟨AReader.init ml (frames ps ++ t) sc, none⟩).1
      <+: ps.map (decodeRes c) ++ List.replicate acts.length (.error (.io .unexpectedEof)) := by
  obtain ⟨h1, h2, h3⟩ := init_rep ml (frames ps ++ t) sc
  have hp := hfit p (by simp)
  exact (run_spec c ml t _ (.cut p t ht hne hcut hp.1 hp.2) rfl acts ps ⟨AReader.init ml (frames ps ++ t) sc, none⟩ h1 h2 h3 hok
    (fun q hq => hfit q (by simp [hq]))).1

/-- … **never a value** (nor a clean end) for the truncated frame or anything after it. -/
theorem async_truncation_never_value (c : Codec α) (ml : Nat) (ps : List Bytes) (p t : Bytes) (sc : List Ev)
    (acts : List RAct) (hok : AOk sc) (hfit : ∀ q ∈ ps ++ [p], q.length ≤ ml ∧ q.length < 4294967296)
    (ht : t <+: frame p) (hne : t ≠ []) (hcut : t ≠ frame p) :
    ∀ x ∈ (dataResults (RSys.run c acts ⟨AReader.init ml (frames ps ++ t) sc, none⟩).1).drop ps.length,
      x = .error (.io .unexpectedEof) := by
  have := (prefix_tail_eq _ _ _ _ (async_truncation c ml ps p t sc acts hok hfit ht hne hcut)).1
  simpa using this

/-- **No desynchronisation**: a frame whose payload fails to decode yields its decode error in
    its place; the frames before and after it are returned as usual, under every schedule. -/
theorem async_resync (c : Codec α) (ml : Nat) (ps1 ps2 : List Bytes) (p : Bytes) (e : Err) (sc : List Ev)
    (acts : List RAct) (hbad : c.dec p = .error e) (hok : AOk sc)
    (hfit : ∀ q ∈ ps1 ++ p :: ps2, q.length ≤ ml ∧ q.length < 4294967296) :
    dataResults (RSys.run c acts ⟨AReader.init ml (frames (ps1 ++ p :: ps2)) sc, none⟩).1
      <+: ps1.map (decodeRes c) ++ .error (.decode e) :: ps2.map (decodeRes c)
          ++ List.replicate acts.length (.ok none) := by
  have := async_reader_schedule_independent c ml (ps1 ++ p :: ps2) sc acts hok hfit
  simpa [decodeRes, hbad] using this

/-! ## state invariants: bounded buffer, offsets, the state after `InvalidLen` -/

/-- the reachable states. -/
def Good (r : ARCore) : Prop := Wf r ∨ Stuck r

theorem poll_good (c : Codec α) (rd : AReader) (h : Good rd.core) :
    Good (rd.poll c).2.core ∧ (rd.poll c).2.core.maxLen = rd.core.maxLen := by
  rcases h with hw | hs
  · have := poll_inv c rd hw
    generalize rd.poll c = out at this ⊢
    obtain ⟨x, ⟨core', src'⟩⟩ := out
    simp only at this ⊢
    cases this with
    | stay x r' b' h1 h2 _ _ => exact ⟨.inl h1, h2⟩
    | frame p _ _ h2 _ => exact ⟨.inl (Wf.fresh p _ h2), rfl⟩
    | oversize len _ r' _ _ _ h4 h5 => exact ⟨.inr h4, h5⟩
  · unfold AReader.poll
    rw [settle_stuck c _ hs]
    exact ⟨.inr hs, rfl⟩

theorem run_good (c : Codec α) : ∀ (acts : List RAct) (s : RSys), Good s.rd.core →
    Good (RSys.run c acts s).2.rd.core ∧ (RSys.run c acts s).2.rd.core.maxLen = s.rd.core.maxLen := by
  intro acts
  induction acts with
  | nil => intro s h; exact ⟨h, rfl⟩
  | cons a as ih =>
    intro s h
    cases a with
    | drop => exact ih ⟨s.rd, none⟩ h
    | poll =>
      obtain ⟨g1, g2⟩ := poll_good c s.rd h
      simp only [RSys.run, RSys.act]
      cases hp : s.rd.poll c with
      | mk x rd' =>
        rw [hp] at g1 g2
        cases x with
        | pending => obtain ⟨i1, i2⟩ := ih ⟨rd', some {}⟩ g1; exact ⟨i1, by rw [i2]; exact g2⟩
        | ready y => obtain ⟨i1, i2⟩ := ih ⟨rd', none⟩ g1; exact ⟨i1, by rw [i2]; exact g2⟩

/-- **The buffer never exceeds `max_len`**, under every schedule and every source behaviour
    whatsoever (also ill-behaved ones), whatever the stream contains. -/
theorem async_alloc (c : Codec α) (ml : Nat) (bytes : Bytes) (sc : List Ev) (acts : List RAct) :
    (RSys.run c acts ⟨AReader.init ml bytes sc, none⟩).2.rd.core.buffer.length ≤ ml := by
  obtain ⟨g, m⟩ := run_good c acts ⟨AReader.init ml bytes sc, none⟩ (.inl (Wf.init ml))
  have hm : (RSys.run c acts ⟨AReader.init ml bytes sc, none⟩).2.rd.core.maxLen = ml := m
  rcases g with ⟨h, _⟩ | ⟨h, _⟩ <;> omega

/-- the prefix buffer is 4 bytes and its offset never exceeds 4; the payload offset never
    exceeds the buffer (the `as u8` cast and the slice indexing cannot go wrong). -/
theorem offset_le_four (c : Codec α) (ml : Nat) (bytes : Bytes) (sc : List Ev) (acts : List RAct) :
    match (RSys.run c acts ⟨AReader.init ml bytes sc, none⟩).2.rd.core.state with
    | .readLen buf o => buf.length = 4 ∧ o ≤ 4
    | .readVal o => o < (RSys.run c acts ⟨AReader.init ml bytes sc, none⟩).2.rd.core.buffer.length := by
  obtain ⟨g, _⟩ := run_good c acts ⟨AReader.init ml bytes sc, none⟩ (.inl (Wf.init ml))
  generalize (RSys.run c acts ⟨AReader.init ml bytes sc, none⟩).2.rd.core = r at g
  rcases g with ⟨_, h⟩ | ⟨_, len, hs, _, _⟩
  · cases hs : r.state with
    | readLen buf o => rw [hs] at h; exact ⟨h.1, by omega⟩
    | readVal o => rw [hs] at h; exact h.1
  · rw [hs]; simp

/-- **An oversized length is rejected before the buffer is touched**: if the stream continues
    with a prefix that claims more than `max_len`, a poll either stays quiet (Pending /
    transient error) or returns `InvalidLen`, entering the `Stuck` state with the buffer still
    within `max_len` — and in that state every further poll returns `InvalidLen` again without
    consuming anything (the reader does not skip the frame). -/
theorem async_oversize_rejected (c : Codec α) (rd : AReader) (len : Nat) (rest : Bytes)
    (hw : Wf rd.core) (hS : pb rd.core ++ rd.src.bytes = be 4 len ++ rest)
    (hbig : len > rd.core.maxLen) (h32 : len < 4294967296) (hok : AOk rd.src.script) :
    ((Quiet (rd.poll c).1 ∧ Wf (rd.poll c).2.core ∧
        pb (rd.poll c).2.core ++ (rd.poll c).2.src.bytes = be 4 len ++ rest) ∨
      ((rd.poll c).1 = .ready (.error .invalidLen) ∧ Stuck (rd.poll c).2.core)) ∧
    (∀ rd' : AReader, Stuck rd'.core → rd'.poll c = (.ready (.error .invalidLen), rd')) := by
  constructor
  · have := poll_inv c rd hw
    rw [hS] at this
    generalize rd.poll c = out at this ⊢
    obtain ⟨x, ⟨core', src'⟩⟩ := out
    simp only at this ⊢
    cases this with
    | stay x r' b' h1 h2 h3 h4 =>
      rcases h4 with h | h | h | ⟨_, hb⟩
      · exact .inl ⟨.inl h, h1, h3⟩
      · exact .inl ⟨.inr (.inl h), h1, h3⟩
      · exact .inl ⟨.inr (.inr h), h1, h3⟩
      · have := hb hok
        rw [this, List.append_nil] at h3
        exact absurd h3 (pb_not_oversize _ h1 len rest (by rw [h2]; exact hbig) h32)
    | frame p _ h1 h2 h3 =>
      rw [frame, List.append_assoc] at h1
      obtain ⟨e, _⟩ := be4_inj _ _ _ _ h32 h3 h1
      omega
    | oversize l _ r' _ _ _ h4 _ => exact .inr ⟨rfl, h4⟩
  · intro rd' hs
    unfold AReader.poll
    rw [settle_stuck c _ hs]

/-- non-vacuity: two frames, byte-wise delivery with Pendings and an error, drops after
    Pendings; `max_len` exactly the larger payload. -/
example :
    dataResults (RSys.run valCodec [.poll, .drop, .poll, .poll, .drop, .poll, .poll, .poll, .poll]
      ⟨AReader.init 3 (frames [Enc.u64 300, Enc.bytes [1, 2]])
        [.io 1, .pend, .io 2, .fail, .io 1, .io 1, .pend, .io 9, .io 9, .pend, .io 9, .io 9, .io 9], none⟩).1
      = [.ok (some (.u 300)), .ok (some (.b [1, 2])), .ok none] := by rfl

/-! ## `set_max_len` while a frame is in flight -/

/-- `maxLen` replaced. -/
def withMax (k : Nat) (r : ARCore) : ARCore := { r with maxLen := k }

theorem settle_readVal_max (c : Codec α) (r : ARCore) (o k : Nat) (h : r.state = .readVal o) :
    (withMax k r).settle c = (match r.settle c with
      | .want r' => .want (withMax k r')
      | .ret out r' => .ret out (withMax k r')) := by
  unfold ARCore.settle withMax
  simp only [h]
  split
  · rfl
  · simp only [← h]

theorem settle_readVal_state (c : Codec α) (r r' : ARCore) (o : Nat) (h : r.state = .readVal o)
    (hs : r.settle c = .want r') : r' = r := by
  unfold ARCore.settle at hs
  simp only [h] at hs
  split at hs
  · cases hs
  · injection hs with e; exact e.symm

theorem absorb_readVal (r : ARCore) (o : Nat) (bs : Bytes) (h : r.state = .readVal o) :
    (r.absorb bs).state = .readVal (o + bs.length) := by
  unfold ARCore.absorb; simp only [h]

theorem absorb_max (r : ARCore) (k : Nat) (bs : Bytes) : (withMax k r).absorb bs = withMax k (r.absorb bs) := by
  unfold ARCore.absorb withMax
  cases r.state <;> rfl

theorem req_max (r : ARCore) (k : Nat) : (withMax k r).req = r.req := by
  unfold ARCore.req withMax
  cases r.state <;> rfl

theorem eofRes_max (r : ARCore) (k : Nat) : (withMax k r).eofRes (α := α) = r.eofRes := by
  unfold ARCore.eofRes withMax
  cases r.state <;> rfl

/-- **a frame in flight is not affected by `set_max_len`**: once the length prefix has been accepted (state `ReadVal`), the poll loop
    with any other limit transfers the same bytes, returns the same result and leaves the same reader (up to the limit itself). -/
theorem pollLoop_readVal_max (c : Codec α) (k : Nat) : ∀ (sc : List Ev) (r : ARCore) (o : Nat) (bytes : Bytes),
    r.state = .readVal o →
    pollLoop c (withMax k r) bytes sc =
      ((pollLoop c r bytes sc).1, withMax k (pollLoop c r bytes sc).2.1, (pollLoop c r bytes sc).2.2) := by
  intro sc
  induction sc with
  | nil => intro r o bytes _; rfl
  | cons ev sc ih =>
    intro r o bytes h
    cases ev with
    | pend => rfl
    | intr => rfl
    | fail => rfl
    | zero =>
      show (Poll.ready (withMax k r).eofRes, withMax k r, (⟨bytes, sc⟩ : Src)) = _
      rw [eofRes_max]; rfl
    | io n =>
      unfold pollLoop
      simp only [req_max, eofRes_max]
      split
      · rfl
      · rw [absorb_max]
        have hst := absorb_readVal r o (bytes.take (min (min n r.req) bytes.length)) h
        rw [settle_readVal_max c _ _ k hst]
        cases hs : (r.absorb (bytes.take (min (min n r.req) bytes.length))).settle c with
        | ret out r' => rfl
        | want r' =>
          have := settle_readVal_state c _ r' _ hst hs
          subst this
          exact ih _ _ _ hst

/-- **`set_max_len` between a dropped read and the next one does not tear the frame in flight**: with the payload partly read, the next
    poll returns what it would have returned, and leaves the reader it would have left, whatever the new limit is. -/
theorem set_max_len_frame_in_flight (c : Codec α) (rd : AReader) (o k : Nat) (h : rd.core.state = .readVal o) :
    (rd.setMaxLen k).poll c = ((rd.poll c).1, (rd.poll c).2.setMaxLen k) := by
  unfold AReader.poll AReader.setMaxLen
  show (match (withMax k rd.core).settle c with
    | .ret out core => (Poll.ready out, (⟨core, rd.src⟩ : AReader))
    | .want core =>
      let (p, core', src') := pollLoop c core rd.src.bytes rd.src.script
      (p, ⟨core', src'⟩)) = _
  rw [settle_readVal_max c rd.core o k h]
  cases hs : rd.core.settle c with
  | ret out r' => rfl
  | want r' =>
    have := settle_readVal_state c _ r' _ h hs
    subst this
    show (let (p, core', src') := pollLoop c (withMax k rd.core) rd.src.bytes rd.src.script
      (p, (⟨core', src'⟩ : AReader))) = _
    rw [pollLoop_readVal_max c k _ _ o _ h]
    rfl

end Minicbor.C15
