/-
  C09 — Derived Encode/Decode round-trip for every type definition (part 1: round trip, errors,
  re-framed input; part 2, borrowing, is Thm/C09.lean, which imports this file).
  Property theorems only (helper lemmas: Lemmas/DeriveDec.lean, DeriveIndef.lean).
  (Split off so that C10 can use these theorems together with C06's: the import closure of the
  borrowing part and that of C06 both define a `Minicbor.Steps`.)

  `decTy` is the model of the generated `Decode` impl (Derive.lean, transcribed from
  minicbor-derive/src/decode.rs), `encTy` of the generated `Encode` impl.
-/
import Minicbor.Lemmas.DeriveDec
import Minicbor.Lemmas.DeriveIndef
import Minicbor.Lemmas.DeriveReframe
import Minicbor.Lemmas.DeriveReframePref
import Minicbor.Lemmas.DeriveReframeVal
import Minicbor.Lemmas.DeriveReframeSim
import Minicbor.Lemmas.DeriveSpecValid

namespace Minicbor.C09
open Minicbor.Derive Minicbor.Dec

/-! ### the excluded values

`Option<T>::decode` looks at the next data type and takes `Type::Null` for `None`; so a
`Some(x)` whose encoding *is* `null` (an `Option` nested in an `Option`, an `Option` of a
transparent wrapper of a nil value) cannot come back as `Some` — the documented exclusion of C01.
`noClash` demands of every `Some(x)` in the value that `datatype()` on the encoding of `x`
does not answer `Null` (`startOk`: the first byte is not `f6`; its second conjunct — a one-byte
negative-integer head is followed by its argument — holds for every encoding). -/

mutual
def noClash : FTy → Derive.Val → Bool
  | .option t, .some v => startOk (encTy t v) && noClash t v
  | .vec t, .list vs => vs.all (noClash t)
  | .struct _ fs, .struct vs => noClashFields fs vs
  | .enum _ vars, .enum k vs => noClashVars vars k vs
  | _, _ => true
termination_by structural t => t
def noClashFields : Fields → List Derive.Val → Bool
  | (a, t) :: fs, v :: vs => (a.skip || noClash t v) && noClashFields fs vs
  | _, _ => true
termination_by structural fs => fs
def noClashVars : Variants → Nat → List Derive.Val → Bool
  | [], _, _ => true
  | (_, fs) :: _, 0, vs => noClashFields fs vs
  | _ :: rest, k + 1, vs => noClashVars rest k vs
termination_by structural vars => vars
end

/-! ### enum rows -/

/-- the index of the `k`-th declared variant. -/
def varIdx : Variants → Nat → Nat
  | [], _ => 0
  | (va, _) :: _, 0 => va.idx
  | _ :: rest, k + 1 => varIdx rest k

/-- what a row writes after the variant index. -/
def rowBytes (e : EAttr) : Variants → Nat → List Derive.Val → Bytes
  | [], _, _ => []
  | (va, fs) :: _, 0, vs =>
      let enc := va.enc.getD (e.enc.getD .array)
      match va.shape with
      | .unit => if e.indexOnly then [] else tagBytes va.tag ++ emptyBody enc
      | _ => tagBytes va.tag ++ frame enc (encFields fs vs)
  | _ :: rest, k + 1, vs => rowBytes e rest k vs

theorem encVars_eq (e : EAttr) : ∀ (vars : Variants) (k : Nat) (vs : List Derive.Val),
    acceptedVars e vars = true → hasVars vars k vs = true →
    encVars e vars k vs =
      (if e.indexOnly then [] else Enc.array 2) ++ (Enc.u32 (varIdx vars k) ++ rowBytes e vars k vs)
  | [], _, _, _, h => by simp [hasVars] at h
  | (va, fs) :: rest, 0, vs, ha, _ => by
    simp only [acceptedVars, Bool.and_eq_true] at ha
    have hio := ha.1.2
    cases hsh : va.shape <;> cases hix : e.indexOnly <;>
      simp [encVars, varIdx, rowBytes, hsh, hix] <;> simp [hix, hsh] at hio
  | (va, fs) :: rest, k + 1, vs, ha, hv => by
    simp only [acceptedVars, Bool.and_eq_true] at ha
    simp only [hasVars] at hv
    simp only [encVars, varIdx, rowBytes]
    exact encVars_eq e rest k vs ha.2 hv

theorem skip_emptyMap (rest : Bytes) : Dec.skip true (Enc.map 0 ++ rest) = .ok () rest := by
  apply skip_leaf
  have ha := map_enc 0 rest (by decide)
  have e : Enc.map 0 ++ rest = 0xa0 :: rest := rfl
  rw [e] at ha ⊢
  simp [skipArm, Dec.bind_run, ha]

theorem skip_emptyBody (enc : Encoding) (rest : Bytes) : Dec.skip true (emptyBody enc ++ rest) = .ok () rest := by
  cases enc
  · exact skip_emptyArray rest
  · exact skip_emptyMap rest

theorem blob_rt (t : FTy) (v : Derive.Val) (hb : fieldBlob t = true) (hv : hasTy t v = true) (hc : noClash t v = true)
    (rest : Bytes) : decTy t (encTy t v ++ rest) = .ok (withDefaults t v) rest := by
  cases t with
  | blob k =>
    cases v <;> simp [hasTy] at hv
    simp only [encTy, decTy, withDefaults, Dec.bind_run, bytes_enc _ rest (by simpa [U64] using hv)]
    rfl
  | option t =>
    cases t <;> simp [fieldBlob] at hb
    cases v <;> simp [hasTy] at hv
    · simp only [encTy, decTy, withDefaults]; exact optionDec_none _ rest
    · rename_i k w
      cases w <;> simp [hasTy] at hv
      rename_i b
      simp only [noClash, Bool.and_eq_true] at hc
      simp only [decTy, withDefaults]
      apply optionDec_some _ _ _ _ hc.1
      simp only [encTy, decTy, Dec.bind_run, bytes_enc _ rest (by simpa [U64] using hv)]
      rfl
  | _ => simp [fieldBlob] at hb

theorem nodup_head_ne (va : VAttr) (fs : Fields) (rest : Variants) (k : Nat)
    (hnd : (((va, fs) :: rest).map (·.1.idx)).Nodup) (hk : k < rest.length) : va.idx ≠ varIdx rest k := by
  have h : va.idx ∉ rest.map (·.1.idx) ∧ (rest.map (·.1.idx)).Nodup := List.nodup_cons.1 hnd
  intro e
  apply h.1
  rw [e]
  clear h hnd e
  induction rest generalizing k with
  | nil => simp at hk
  | cons r rs ih =>
    obtain ⟨ra, rf⟩ := r
    cases k with
    | zero => simp [varIdx]
    | succ k =>
      simp only [varIdx, List.map_cons, List.mem_cons]
      right; exact ih k (by simpa using hk)

theorem hasVars_lt : ∀ (vars : Variants) (k : Nat) (vs : List Derive.Val), hasVars vars k vs = true → k < vars.length
  | [], _, _, h => by simp [hasVars] at h
  | _ :: _, 0, _, _ => by simp
  | _ :: rest, k + 1, vs, h => by
    simp only [hasVars] at h
    have := hasVars_lt rest k vs h
    simp; omega

/-! ### the main theorem -/

mutual
/-- **derive_roundtrip** (inductive core): decoding the derived encoding, followed by arbitrary
    bytes, yields the value (skipped fields defaulted) and stops exactly at its end. -/
theorem dec_roundtrip : ∀ (t : FTy) (v : Derive.Val), accepted t = true → hasTy t v = true → noClash t v = true →
    ∀ rest, decTy t (encTy t v ++ rest) = .ok (withDefaults t v) rest
  | .int k, v, _, hv, _, rest => by
    cases v <;> simp [hasTy] at hv
    simp only [encTy, decTy, withDefaults, Dec.bind_run, int_rt k _ rest hv]; rfl
  | .bool, v, _, hv, _, rest => by
    cases v <;> simp [hasTy] at hv
    simp only [encTy, decTy, withDefaults, Dec.bind_run, bool_enc]; rfl
  | .text k, v, _, hv, _, rest => by
    cases v <;> simp [hasTy] at hv
    simp only [encTy, decTy, withDefaults, Dec.bind_run, str_enc _ rest (by simpa [U64] using hv.2) hv.1]; rfl
  | .blob k, v, _, hv, _, rest => by
    cases v <;> simp [hasTy] at hv
    simp only [encTy, decTy, withDefaults, Dec.bind_run, bytes_enc _ rest (by simpa [U64] using hv)]; rfl
  | .option t, v, ha, hv, hc, rest => by
    simp only [accepted] at ha
    cases v <;> simp [hasTy] at hv
    · simp only [encTy, decTy, withDefaults]; exact optionDec_none _ rest
    · simp only [noClash, Bool.and_eq_true] at hc
      simp only [encTy, decTy, withDefaults]
      exact optionDec_some _ _ _ _ hc.1 (dec_roundtrip t _ ha hv hc.2 rest)
  | .vec t, v, ha, hv, hc, rest => by
    simp only [accepted] at ha
    cases v <;> simp [hasTy] at hv
    rename_i vs
    simp only [noClash] at hc
    simp only [encTy, decTy, withDefaults]
    exact vecDec_rt (decTy t) (encTy t) (withDefaults t) vs rest (by simpa [U64] using hv.2)
      (fun w hw r => dec_roundtrip t w ha (hv.1 w hw) (by simpa using List.all_eq_true.1 hc w hw) r)
  | .struct a fs, v, ha, hv, hc, rest => by
    simp only [accepted, Bool.and_eq_true] at ha
    cases v <;> simp [hasTy] at hv
    rename_i vs
    simp only [noClash] at hc
    have hrt := fields_roundtrip fs vs ha.1.1.1.2 hv hc
    simp only [encTy, decTy, withDefaults, structDec]
    cases htr : a.transparent
    · simp only [Bool.false_eq_true, if_false, List.append_assoc]
      rw [Dec.bind_run, tagCheck_rt _ _ ha.1.1.1.1]
      simp only []
      rw [Dec.bind_run, fieldsDec_rt _ fs vs rest ha.1.1.1.2 (C08.nodupNat_nodup _ ha.1.1.2) hv hrt]
      rfl
    · simp only [if_true]
      have h1 := ha.2
      simp only [htr, Bool.not_true, Bool.false_or, Bool.and_eq_true] at h1
      match fs, vs, hv, h1, hrt with
      | [(fa, ft)], [w], _, h1, hrt =>
        have hs : fa.skip = false := by simpa using h1.2
        have := hrt.1 hs rest
        simp only [encFields, hs, Bool.false_eq_true, if_false, transparentBody, decFields, transparentDec,
          defaultsFields, Dec.bind_run, this]
        rfl
      | [(fa, ft)], [], hv, _, _ => simp [hasFields] at hv
      | [(fa, ft)], _ :: _ :: _, hv, _, _ => simp [hasFields] at hv
      | [], _, _, h1, _ => simp at h1
      | _ :: _ :: _, _, _, h1, _ => simp at h1
  | .enum a vars, v, ha, hv, hc, rest => by
    simp only [accepted, Bool.and_eq_true] at ha
    cases v <;> simp [hasTy] at hv
    rename_i k vs
    simp only [noClash] at hc
    have hrow := vars_roundtrip a vars k vs 0 ha.1.1.2 (C08.nodupNat_nodup _ ha.1.2) hv hc rest
    have hidx : varIdx vars k < 4294967296 := by
      clear hrow hc
      have hacc := ha.1.1.2
      clear ha
      induction vars generalizing k with
      | nil => simp [hasVars] at hv
      | cons r rs ih =>
        obtain ⟨ra, rf⟩ := r
        simp only [acceptedVars, Bool.and_eq_true, decide_eq_true_eq] at hacc
        cases k with
        | zero => simpa [varIdx, U32] using hacc.1.1.1.1.1.1
        | succ k => simp only [hasVars] at hv; simpa [varIdx] using ih k hv hacc.2
    simp only [encTy, decTy, withDefaults, enumDec, encVars_eq a vars k vs ha.1.1.2 hv, List.append_assoc]
    rw [Dec.bind_run, tagCheck_rt _ _ ha.1.1.1]
    simp only []
    cases hix : a.indexOnly
    · simp only [Bool.false_eq_true, if_false, List.append_assoc]
      rw [Dec.bind_run, Dec.bind_run, array_enc 2 _ (by decide)]
      simp only [beq_self_eq_true, if_true, Dec.pure_run]
      rw [Dec.bind_run, intAcc_u32 _ _ hidx]
      simp only [Int.toNat_natCast, Dec.bind_run, hrow, wrapperEnd, Bool.false_eq_true, if_false, Dec.pure_run, Nat.zero_add]
    · simp only [if_true, List.nil_append, Dec.bind_run, Dec.pure_run, intAcc_u32 _ _ hidx]
      simp only [Int.toNat_natCast, hrow, wrapperEnd, Bool.false_eq_true, if_false, Dec.pure_run, Nat.zero_add]
termination_by structural t => t
theorem fields_roundtrip : ∀ (fs : Fields) (vs : List Derive.Val), acceptedFields fs = true → hasFields fs vs = true →
    noClashFields fs vs = true → FieldsRT fs vs
  | [], _, _, _, _ => trivial
  | (a, t) :: fs, [], _, _, _ => trivial
  | (a, t) :: fs, v :: vs, ha, hv, hc => by
    simp only [acceptedFields, Bool.and_eq_true] at ha
    simp only [hasFields, Bool.and_eq_true] at hv
    simp only [noClashFields, Bool.and_eq_true, Bool.or_eq_true] at hc
    refine ⟨?_, fields_roundtrip fs vs ha.2 hv.2 hc.2⟩
    intro hs r
    have hcl : noClash t v = true := by
      rcases hc.1 with h | h
      · rw [hs] at h; cases h
      · exact h
    have hco : codecOk a.codec t = true := by
      have := ha.1.1
      simp only [fieldAttrOk, hs, Bool.false_eq_true, if_false, Bool.and_eq_true] at this
      exact this.1.2
    have hbody : ∀ r, decTy t (encTy t v ++ r) = .ok (withDefaults t v) r := by
      intro r
      cases hb : fieldBlob t
      · exact dec_roundtrip t v (by simpa [hb] using ha.1.2) hv.1 hcl r
      · exact blob_rt t v hb hv.1 hcl r
    cases hcd : a.codec
    · simpa [decWith, encWith] using hbody r
    · simpa [decWith, encWith] using hbody r
    · rw [hcd] at hco
      have ht : t = .int .u32 := by
        cases t <;> simp [codecOk] at hco
        rename_i k; cases k <;> simp [codecOk] at hco; rfl
      subst ht
      cases v <;> simp [hasTy] at hv
      rename_i i
      simpa [withDefaults] using nilu_rt i r hv.1 (decTy (.int .u32)) (encTy (.int .u32))
termination_by structural fs => fs
theorem vars_roundtrip (e : EAttr) : ∀ (vars : Variants) (k : Nat) (vs : List Derive.Val) (pos : Nat),
    acceptedVars e vars = true → (vars.map (·.1.idx)).Nodup → hasVars vars k vs = true →
    noClashVars vars k vs = true →
    ∀ rest, findVariant (decVars e vars) pos (varIdx vars k) (rowBytes e vars k vs ++ rest) =
      .ok (.enum (pos + k) (defaultsVars vars k vs)) rest
  | [], _, _, _, _, _, hv, _, _ => by simp [hasVars] at hv
  | (va, fs) :: rest, 0, vs, pos, ha, _, hv, hc, r => by
    simp only [acceptedVars, Bool.and_eq_true, decide_eq_true_eq] at ha
    simp only [hasVars] at hv
    simp only [noClashVars] at hc
    obtain ⟨⟨⟨⟨⟨⟨hidx, htag⟩, hacc⟩, hnd⟩, hunit⟩, hio⟩, _⟩ := ha
    simp only [decVars, findVariant, varIdx, beq_self_eq_true, if_true, rowBytes, defaultsVars, Nat.add_zero]
    cases hsh : va.shape
    · -- unit variant: no fields
      have hfs : fs = [] := by simpa [hsh] using hunit
      subst hfs
      have hvs : vs = [] := by cases vs <;> simp [hasFields] at hv ⊢
      subst hvs
      cases hix : e.indexOnly
      · simp only [Bool.false_eq_true, if_false, List.append_assoc, Dec.bind_run, tagCheck_rt _ _ htag,
          skip_emptyBody, Dec.pure_run, defaultsFields]
      · simp [Dec.bind_run, defaultsFields]
    all_goals
      have hfr := fields_roundtrip fs vs hacc hv hc
      simp only [List.append_assoc, Dec.bind_run, tagCheck_rt _ _ htag,
        fieldsDec_rt _ fs vs r hacc (C08.nodupNat_nodup _ hnd) hv hfr, Dec.pure_run]
  | (va, fs) :: rest, k + 1, vs, pos, ha, hnd, hv, hc, r => by
    simp only [acceptedVars, Bool.and_eq_true] at ha
    simp only [hasVars] at hv
    simp only [noClashVars] at hc
    have hne := nodup_head_ne va fs rest k hnd (hasVars_lt rest k vs hv)
    have hb : (va.idx == varIdx rest k) = false := by simpa using hne
    have hnd' : (rest.map (·.1.idx)).Nodup := (List.nodup_cons.1 (show (va.idx :: rest.map (·.1.idx)).Nodup from hnd)).2
    have ih := vars_roundtrip e rest k vs (pos + 1) ha.2 hnd' hv hc r
    simp only [decVars, findVariant, varIdx, rowBytes, defaultsVars, hb, Bool.false_eq_true, if_false]
    rw [ih]
    congr 2
    omega
termination_by structural vars => vars
end

/-- **C09, main statement.**  For every struct or enum definition accepted by the derive macros
    and every value of it (outside the documented `Some(x) ↦ null` exclusion), decoding the
    derived encoding followed by arbitrary bytes yields an equal value, skipped fields taking
    their default, and consumes exactly the encoding. -/
theorem derive_roundtrip (t : FTy) (v : Derive.Val) (ha : accepted t = true) (hv : hasTy t v = true)
    (hc : noClash t v = true) (rest : Bytes) :
    deriveDecode t (deriveEncode t v ++ rest) = .ok (withDefaults t v) rest :=
  dec_roundtrip t v ha hv hc rest

/-- … in particular on the encoding alone the decoder stops at position `len`. -/
theorem derive_roundtrip_exact_length (t : FTy) (v : Derive.Val) (ha : accepted t = true) (hv : hasTy t v = true)
    (hc : noClash t v = true) :
    deriveDecode t (deriveEncode t v) = .ok (withDefaults t v) [] := by
  have := derive_roundtrip t v ha hv hc []
  simpa using this

/-! ### errors are reported, never papered over with defaults -/

theorem tagCheck_wrong (t t' : Nat) (rest : Bytes) (h : t' < 18446744073709551616) (hne : t' ≠ t) :
    tagCheck (some t) (Enc.tag t' ++ rest) = .err .tag rest := by
  simp [tagCheck, Dec.bind_run, tag_enc t' rest h, hne]

/-- a wrong tag on a struct is a tag-mismatch error (position: right after the tag). -/
theorem derive_wrong_tag (a : SAttr) (fs : Fields) (t t' : Nat) (rest : Bytes) (ht : a.tag = some t)
    (hnt : a.transparent = false) (h : t' < 18446744073709551616) (hne : t' ≠ t) :
    deriveDecode (.struct a fs) (Enc.tag t' ++ rest) = .err .tag rest := by
  simp only [deriveDecode, decTy, structDec, hnt, Bool.false_eq_true, if_false, ht]
  rw [Dec.bind_run, tagCheck_wrong t t' rest h hne]

/-- … and on an enum. -/
theorem derive_wrong_tag_enum (a : EAttr) (vars : Variants) (t t' : Nat) (rest : Bytes) (ht : a.tag = some t)
    (h : t' < 18446744073709551616) (hne : t' ≠ t) :
    deriveDecode (.enum a vars) (Enc.tag t' ++ rest) = .err .tag rest := by
  simp only [deriveDecode, decTy, enumDec, ht]
  rw [Dec.bind_run, tagCheck_wrong t t' rest h hne]

/-- a missing tag (the input does not start with a tag head) is an error. -/
theorem derive_missing_tag (a : SAttr) (fs : Fields) (t : Nat) (b : UInt8) (bs : Bytes) (ht : a.tag = some t)
    (hnt : a.transparent = false) (hb : Dec.majorOf b ≠ 0xc0) :
    ∃ e r, deriveDecode (.struct a fs) (b :: bs) = .err e r := by
  obtain ⟨e, r, he⟩ := typeMismatch_is_err (α := Nat) b bs
  refine ⟨e, r, ?_⟩
  simp only [deriveDecode, decTy, structDec, hnt, Bool.false_eq_true, if_false, ht, tagCheck]
  simp [Dec.bind_run, Dec.tag, hb, he]

theorem slotValue_res (fd : FDec) (s : Option Derive.Val) (r : Bytes) :
    (∃ v, slotValue fd s r = .ok v r) ∨ slotValue fd s r = .err .missing r := by
  unfold slotValue
  cases fd.a.skip
  · cases s with
    | some x => exact Or.inl ⟨x, rfl⟩
    | none =>
      cases fd.nilV with
      | some z => exact Or.inl ⟨z, rfl⟩
      | none => exact Or.inr rfl
  · exact Or.inl ⟨fd.dflt, rfl⟩

/-- the initialiser reports a field that has neither a decoded value nor a nil value. -/
theorem resolve_missing : ∀ (fds : List FDec) (ss : Slots) (r : Bytes), fds.length = ss.length →
    (∃ i, ∃ (h : i < fds.length) (h' : i < ss.length), (fds[i]).a.skip = false ∧ ss[i] = none ∧ (fds[i]).nilV = none) →
    resolve fds ss r = .err .missing r
  | [], _, _, _, ⟨i, h, _⟩ => by simp at h
  | fd :: fds, [], _, hl, _ => by simp at hl
  | fd :: fds, s :: ss, r, hl, ⟨i, h, h', hskip, hs, hn⟩ => by
    simp only [resolve]
    cases i with
    | zero =>
      simp only [List.getElem_cons_zero] at hskip hs hn
      rw [Dec.bind_run]
      simp [slotValue, hskip, hs, hn]
    | succ i =>
      simp only [List.getElem_cons_succ] at hskip hs hn
      have ih := resolve_missing fds ss r (by simpa using hl)
        ⟨i, by simpa using h, by simpa using h', hskip, hs, hn⟩
      rw [Dec.bind_run]
      rcases slotValue_res fd s r with ⟨v, hv⟩ | hv
      · rw [hv]
        simp only []
        rw [Dec.bind_run, ih]
      · rw [hv]

/-- **a missing mandatory field is an error**: a struct that declares a mandatory (non-nil-able,
    non-skipped) field rejects the empty array and the empty map. -/
theorem derive_missing_mandatory (a : SAttr) (fs : Fields) (fa : FAttr) (ft : FTy) (rest : Bytes)
    (hnt : a.transparent = false) (htag : a.tag = none) (hmem : (fa, ft) ∈ fs) (hlive : fa.skip = false)
    (hmand : nilOf fa ft = none) (hnoopt : ft.isOption = false) :
    deriveDecode (.struct a fs) (emptyBody (a.enc.getD .array) ++ rest) = .err .missing rest := by
  have hres : resolve (decFields fs) ((decFields fs).map (·.init)) rest = .err .missing rest := by
    apply resolve_missing _ _ _ (by simp)
    obtain ⟨i, hi, hget⟩ := List.getElem_of_mem hmem
    have hlen : (decFields fs).length = fs.length := by
      clear hmem hi hget
      induction fs with
      | nil => rfl
      | cons f fs ih => obtain ⟨x, y⟩ := f; simp [decFields, ih]
    have hget' : ∀ (fs : Fields) (i : Nat) (h : i < fs.length) (h2 : i < (decFields fs).length),
        (decFields fs)[i] = ⟨fs[i].1, slotInit fs[i].2, nilOf fs[i].1 fs[i].2, defaultOf fs[i].2,
          swallows fs[i].1 fs[i].2, decWith fs[i].1.codec (decTy fs[i].2)⟩ := by
      intro fs
      induction fs with
      | nil => intro i h; simp at h
      | cons f fs ih =>
        obtain ⟨x, y⟩ := f
        intro i h h2
        cases i with
        | zero => simp [decFields]
        | succ i => simp only [decFields, List.getElem_cons_succ]; exact ih i (by simpa using h) (by simpa [decFields] using h2)
    refine ⟨i, by omega, by simp; omega, ?_, ?_, ?_⟩
    · rw [hget' fs i hi (by omega), hget]; exact hlive
    · simp only [List.getElem_map]
      rw [hget' fs i hi (by omega), hget]
      simp [slotInit, hnoopt]
    · rw [hget' fs i hi (by omega), hget]; exact hmand
  simp only [deriveDecode, decTy, structDec, hnt, Bool.false_eq_true, if_false, htag, tagCheck]
  cases henc : a.enc.getD .array
  · have e : emptyBody .array ++ rest = Enc.array 0 ++ rest := rfl
    simp only [Dec.bind_run, Dec.pure_run, Derive.fieldsDec, statements, e, array_enc 0 rest (by decide), arrLoopN, hres]
  · have e : emptyBody .map ++ rest = Enc.map 0 ++ rest := rfl
    simp only [Dec.bind_run, Dec.pure_run, Derive.fieldsDec, statements, e, map_enc 0 rest (by decide), mapLoopN, hres]

theorem findVariant_unknown : ∀ (vds : List VDec) (pos i : Nat) (r : Bytes), (∀ vd ∈ vds, vd.a.idx ≠ i) →
    findVariant vds pos i r = .err .variant r
  | [], _, _, _, _ => rfl
  | vd :: vds, pos, i, r, h => by
    have : (vd.a.idx == i) = false := by simpa using h vd (by simp)
    simp only [findVariant, this, Bool.false_eq_true, if_false]
    exact findVariant_unknown vds (pos + 1) i r (fun v hv => h v (by simp [hv]))

theorem decVars_idx (e : EAttr) : ∀ (vars : Variants) (vd : VDec), vd ∈ decVars e vars → vd.a.idx ∈ vars.map (·.1.idx)
  | [], vd, h => by simp [decVars] at h
  | (va, fs) :: rest, vd, h => by
    simp only [decVars, List.mem_cons] at h
    rcases h with rfl | h
    · simp
    · simp only [List.map_cons, List.mem_cons]; right; exact decVars_idx e rest vd h

/-- **an unknown variant at top level is an error** (position: right after the index). -/
theorem derive_unknown_variant (a : EAttr) (vars : Variants) (i : Nat) (rest : Bytes) (htag : a.tag = none)
    (hi : i < 4294967296) (hunk : i ∉ vars.map (·.1.idx)) :
    deriveDecode (.enum a vars) ((if a.indexOnly then [] else Enc.array 2) ++ (Enc.u32 i ++ rest)) = .err .variant rest := by
  have hfv := findVariant_unknown (decVars a vars) 0 i rest (by
    intro vd hvd e; apply hunk; rw [← e]; exact decVars_idx a vars vd hvd)
  simp only [deriveDecode, decTy, enumDec, htag, tagCheck]
  cases hix : a.indexOnly
  · simp only [Bool.false_eq_true, if_false, Dec.bind_run, Dec.pure_run, array_enc 2 _ (by decide), beq_self_eq_true,
      if_true, intAcc_u32 i rest hi]
    simp only [Int.toNat_natCast, hfv]
  · simp only [if_true, List.nil_append, Dec.bind_run, Dec.pure_run, intAcc_u32 i rest hi]
    simp only [Int.toNat_natCast, hfv]

/-- the two-element wrapper of an enum must have exactly two elements: a definite array of another
    length is rejected with a message error (an indefinite-length wrapper is accepted since the
    repair of K8: `derive_decode_reframed`, `derive_decode_reframed_K8_repaired`). -/
theorem derive_enum_wrong_wrapper_length (a : EAttr) (vars : Variants) (n : Nat) (rest : Bytes) (htag : a.tag = none)
    (hix : a.indexOnly = false) (hn : n < 24) (h2 : n ≠ 2) :
    deriveDecode (.enum a vars) (Enc.array n ++ rest) = .err .message rest := by
  have hne : (n == 2) = false := by simpa using h2
  simp only [deriveDecode, decTy, enumDec, htag, tagCheck, hix, Bool.false_eq_true, if_false, Dec.bind_run, Dec.pure_run,
    array_enc n rest (by omega), hne]
  rfl

/-! ### re-framed input (indefinite-length containers, non-preferred heads)

The property also quantifies over re-framings of the encoding.  Stated on wire trees (Wire.lean):
any valid tree `w` whose data-model value is the documented value and which does not chunk its
strings (the `String` / byte-string decoders reject chunked strings by design).  Before the repair
of K8 the statement was false (the generated enum decoder insisted on a *definite* two-element
wrapper; the former counterexample is now the positive obligation `derive_decode_reframed_K8_repaired`).
Proved parts: `derive_decode_reframed_partial` (the preferred framing, i.e.
`derive_roundtrip` read through C08) and `derive_decode_indefinite_struct` (the struct's own
array / map container in indefinite-length form, both encodings, with fuel adequacy of the
model's loops); the remaining framings (indefinite nested / variant / `Vec` containers, widened
heads) are covered by the correspondence stream `derive-reframed` only. -/

/-- a struct / variant body as the documented items inside an *indefinite-length* container. -/
def indefBody (enc : Encoding) (fs : Fields) (vs : List Derive.Val) : Bytes :=
  match enc with
  | .array =>
      0x9f :: ((match maxPresent (specFields fs vs) with
        | none => []
        | some m => encPrefs ((List.range' 0 (m + 1)).map (cellAt (specFields fs vs)))) ++ [0xff])
  | .map => 0xbf :: (mapStmts (sortP (encFields fs vs)) ++ [0xff])

/-- `datatype()` at the start of every array cell neither fails nor answers `Break` (holds for
    every encoding; kept as a decidable hypothesis like `noClash`). -/
def cellsStartOk (fs : Fields) (vs : List Derive.Val) : Bool :=
  match maxPresent (specFields fs vs) with
  | none => true
  | some m => (List.range' 0 (m + 1)).all fun i => startNB (encPref (cellAt (specFields fs vs) i))

theorem encPref_length_pos (x : Item) : 1 ≤ (encPref x).length := by
  cases x <;> simp [encPref, prefTree, encW, headW]
  split <;> simp

theorem encPrefs_length_ge (xs : List Item) : xs.length ≤ (encPrefs xs).length := by
  induction xs with
  | nil => simp
  | cons x xs ih =>
    rw [encPrefs_cons, List.length_append, List.length_cons]
    have := encPref_length_pos x
    omega

theorem mapStmts_length_ge (S : List (Derive.Piece Bytes)) : countPresent S ≤ (mapStmts S).length := by
  induction S with
  | nil => simp [countPresent, mapStmts]
  | cons p ps ih =>
    cases hn : p.nil
    · have : 1 ≤ (Enc.u32 p.idx).length := by unfold Enc.u32; (repeat' split) <;> simp
      simp [countPresent, mapStmts, hn]; omega
    · simp [countPresent, mapStmts, hn, ih]

/-- the indefinite-length loops of `gen_statements` read a body given in an indefinite-length
    container (fuel adequacy included: the loop never runs out of the local fuel). -/
theorem fieldsDec_indef (enc : Encoding) (fs : Fields) (vs : List Derive.Val) (rest : Bytes)
    (hacc : acceptedFields fs = true) (hnd : (liveIdxs fs).Nodup) (hty : hasFields fs vs = true)
    (hrt : FieldsRT fs vs) (hst : enc = .array → cellsStartOk fs vs = true) :
    Derive.fieldsDec enc (decFields fs) (indefBody enc fs vs ++ rest) = .ok (defaultsFields fs vs) rest := by
  have hinit := inv_init fs vs hty
  cases enc with
  | array =>
    have hst' := hst rfl
    have harr : ∀ X : Bytes, Dec.array (0x9f :: X) = .ok none X := by
      intro X; simp [Dec.array, Dec.container, Dec.bind_run, Dec.majorOf, Dec.infoOf]; rfl
    cases hm : maxPresent (specFields fs vs) with
    | none =>
      have hnil := maxPresent_none hm
      have hres := resolve_inv (fun _ => false) fs vs _ hacc hty hinit (by
        intro p hp
        rw [C08.fields_spec fs vs hacc hty] at hp
        obtain ⟨q, hq, rfl⟩ := List.mem_map.1 hp
        exact Or.inr (hnil q hq)) rest
      obtain ⟨ss', h1, hi1⟩ := arrLoopI_cells rest fs vs hacc hnd hty hrt 0 0 _ _ (rest.length + 1 + 1) (by omega) hinit
        (by intro i h1 h2; omega)
      simp only [List.range'_zero, List.map_nil, encPrefs_nil, List.nil_append] at h1
      have hres' := resolve_inv _ fs vs ss' hacc hty hi1 (by
        intro p hp
        rw [C08.fields_spec fs vs hacc hty] at hp
        obtain ⟨q, hq, rfl⟩ := List.mem_map.1 hp
        exact Or.inr (hnil q hq)) rest
      simp only [indefBody, hm, List.nil_append, List.cons_append, Derive.fieldsDec, statements, Dec.bind_run, harr,
        Dec.remaining, List.length_cons, h1, hres']
    | some m =>
      simp only [cellsStartOk, hm, List.all_eq_true] at hst'
      have hlen : m + 1 ≤ (encPrefs ((List.range' 0 (m + 1)).map (cellAt (specFields fs vs)))).length := by
        have := encPrefs_length_ge ((List.range' 0 (m + 1)).map (cellAt (specFields fs vs)))
        simpa using this
      obtain ⟨ss', h1, hi1⟩ := arrLoopI_cells rest fs vs hacc hnd hty hrt (m + 1) 0 _ _
        ((encPrefs ((List.range' 0 (m + 1)).map (cellAt (specFields fs vs))) ++ 0xff :: rest).length + 1)
        (by simp only [List.length_append]; omega) hinit
        (by intro i _ h2; exact hst' i (by simp [List.mem_range']; omega))
      have hres := resolve_inv _ fs vs ss' hacc hty hi1 (by
        intro p hp
        rw [C08.fields_spec fs vs hacc hty] at hp
        obtain ⟨q', hq', rfl⟩ := List.mem_map.1 hp
        cases hn : q'.nil
        · left
          have := maxPresent_ge hm q' hq' hn
          simp; omega
        · right; exact hn) rest
      simp only [indefBody, hm, List.cons_append, List.append_assoc, List.singleton_append, List.nil_append,
        Derive.fieldsDec, statements, Dec.bind_run, harr, Dec.remaining, h1, hres]
  | map =>
    have hmap : ∀ X : Bytes, Dec.map (0xbf :: X) = .ok none X := by
      intro X; simp [Dec.map, Dec.container, Dec.bind_run, Dec.majorOf, Dec.infoOf]; rfl
    have hperm := sortP_perm (encFields fs vs)
    have hS : ∀ p ∈ sortP (encFields fs vs), p ∈ encFields fs vs ∧ p.idx < U32 := by
      intro p hp
      have := hperm.mem_iff.1 hp
      exact ⟨this, mem_encFields_idx fs vs hacc hty p this⟩
    have hge := mapStmts_length_ge (sortP (encFields fs vs))
    obtain ⟨ss', h1, hi1⟩ := mapLoopI_stmts rest fs vs hacc hnd hrt (sortP (encFields fs vs)) _ _
      ((mapStmts (sortP (encFields fs vs)) ++ 0xff :: rest).length + 1)
      (by simp only [List.length_append]; omega) hS hinit
    have hres := resolve_inv _ fs vs ss' hacc hty hi1 (by
      intro p hp
      cases hn : p.nil
      · left
        have hp' := hperm.mem_iff.2 hp
        simp only [Bool.false_or, presentIdx, List.any_eq_true]
        exact ⟨p, hp', by simp [hn]⟩
      · right; rfl) rest
    simp only [indefBody, List.cons_append, List.append_assoc, List.singleton_append, List.nil_append,
      Derive.fieldsDec, statements, Dec.bind_run, hmap, Dec.remaining, h1, hres]

/-- **indefinite-length struct container** (`_partial` next to the K8 counterexample): a struct
    whose array / map container is given in indefinite-length form (`9f … ff` / `bf … ff`),
    the fields inside as the encoder writes them, decodes to the same value and is consumed
    exactly — for every accepted struct and value, both encodings. -/
theorem derive_decode_indefinite_struct (a : SAttr) (fs : Fields) (vs : List Derive.Val) (rest : Bytes)
    (ha : accepted (.struct a fs) = true) (hv : hasTy (.struct a fs) (.struct vs) = true)
    (hc : noClash (.struct a fs) (.struct vs) = true) (hta : a.transparent = false)
    (hst : a.enc.getD .array = .array → cellsStartOk fs vs = true) :
    deriveDecode (.struct a fs) (tagBytes a.tag ++ (indefBody (a.enc.getD .array) fs vs ++ rest))
      = .ok (.struct (defaultsFields fs vs)) rest := by
  simp only [accepted, Bool.and_eq_true] at ha
  simp only [hasTy] at hv
  simp only [noClash] at hc
  have hrt := fields_roundtrip fs vs ha.1.1.1.2 hv hc
  simp only [deriveDecode, decTy, structDec, hta, Bool.false_eq_true, if_false]
  rw [Dec.bind_run, tagCheck_rt _ _ ha.1.1.1.1]
  simp only []
  rw [Dec.bind_run, fieldsDec_indef _ fs vs rest ha.1.1.1.2 (C08.nodupNat_nodup _ ha.1.1.2) hv hrt hst]
  rfl

example : deriveDecode C08.exStruct ([0xc9] ++ (indefBody .array
      [({ idx := 3, tag := some 5 }, .option (.int .u8)), ({ idx := 0 }, .text .string), ({ idx := 1, codec := .nilu }, .int .u32), ({ skip := true }, .bool)]
      [.some (.int 7), .text [0x61], .int 0, .bool true] ++ [0x01]))
    = .ok (.struct [.some (.int 7), .text [0x61], .int 0, .bool false]) [0x01] := by rfl

/-- the full-strength statement: proved at the end of this file (`derive_decode_reframed_full`), via
    `derive_decode_reframed` (trees in the executable relation `reframes`), `reframes_sound` and
    `reframes_complete` (`reframes` = "has the documented value and no chunked string"). -/
def derive_decode_reframed_statement : Prop :=
  ∀ (t : FTy) (v : Derive.Val) (w : WItem) (rest : Bytes), accepted t = true → hasTy t v = true → noClash t v = true →
    w.Valid → value w = specTy t v → noChunks w = true →
    deriveDecode t (encW w ++ rest) = .ok (withDefaults t v) rest

theorem derive_decode_reframed_partial (t : FTy) (v : Derive.Val) (rest : Bytes) (ha : accepted t = true)
    (hv : hasTy t v = true) (hc : noClash t v = true) :
    deriveDecode t (encW (prefTree (specTy t v)) ++ rest) = .ok (withDefaults t v) rest := by
  have h1 := derive_roundtrip t v ha hv hc rest
  have h2 := C08.derive_encode_spec t v ha hv
  unfold specEncode encPref at h2
  rw [← h2]; exact h1

def k8Type : FTy := .enum {} [({ idx := 0, shape := .unit }, [])]
def k8Wire : WItem := .arrayI [.uint .w0 0, .array .w0 []]

/-- the former K8 witness: `enum E { #[n(0)] A }`; the valid re-framing `9f 00 80 ff` of `82 00 80`
    has the same data-model value; it was rejected with a message error, and decodes since the repair. -/
theorem derive_decode_reframed_K8_repaired :
    accepted k8Type = true ∧ hasTy k8Type (.enum 0 []) = true ∧ noClash k8Type (.enum 0 []) = true ∧
    k8Wire.valid = true ∧ noChunks k8Wire = true ∧ encW k8Wire = [0x9f, 0x00, 0x80, 0xff] ∧
    reframes k8Type (.enum 0 []) k8Wire = true ∧
    deriveDecode k8Type (encW k8Wire ++ [7]) = .ok (.enum 0 []) [7] := by
  refine ⟨by rfl, by rfl, by rfl, by rfl, by rfl, by rfl, by rfl, by rfl⟩

/-! ### re-framed input, general theorem

`reframes t v w` (Reframe.lean, executable): the valid wire tree `w` carries the derived encoding
of `v : t` with every head at ANY width and every struct body, variant body and `Vec` in a
definite or indefinite-length container, at every nesting depth, the enum wrapper `[index, body]`
included (since the repair of K8); strings stay definite.  `derive_decode_reframed`: the
generated decoder returns the value (skipped fields defaulted) and stops exactly at the end. -/

mutual
theorem rf_dec : ∀ (t : FTy) (v : Derive.Val) (w : WItem), accepted t = true → hasTy t v = true → w.valid = true →
    rf t v w = true → ∀ rest, decTy t (encW w ++ rest) = .ok (withDefaults t v) rest
  | .int k, v, w, _, hv, hw, h, rest => by
    cases v <;> simp [hasTy] at hv
    simp only [rf] at h
    simp only [decTy, withDefaults, Dec.bind_run, rf_int_dec k _ w rest hv hw h]; rfl
  | .bool, v, w, _, hv, _, h, rest => by
    cases v <;> simp [hasTy] at hv
    simp only [rf] at h
    simp only [decTy, withDefaults, Dec.bind_run, rf_bool_dec _ w rest h]; rfl
  | .text k, v, w, _, hv, hw, h, rest => by
    cases v <;> simp [hasTy] at hv
    simp only [rf] at h
    simp only [decTy, withDefaults, Dec.bind_run, rf_text_dec _ w rest hw h]; rfl
  | .blob k, v, w, _, hv, hw, h, rest => by
    cases v <;> simp [hasTy] at hv
    simp only [rf] at h
    simp only [decTy, withDefaults, Dec.bind_run, rf_bytes_dec _ w rest hw h]; rfl
  | .option t, v, w, ha, hv, hw, h, rest => by
    simp only [accepted] at ha
    cases v <;> simp [hasTy] at hv
    · simp only [rf] at h
      simp only [decTy, withDefaults]
      exact rf_none_dec _ w rest h
    · rename_i x
      simp only [rf, Bool.and_eq_true, Bool.not_eq_true'] at h
      simp only [decTy, withDefaults]
      exact rf_some_dec _ w rest _ hw h.1 (rf_dec t x w ha hv hw h.2 rest)
  | .vec t, v, w, ha, hv, hw, h, rest => by
    simp only [accepted] at ha
    cases v <;> simp [hasTy] at hv
    rename_i vs
    simp only [rf] at h
    simp only [decTy, withDefaults]
    exact rf_vec_dec (decTy t) (rf t) (withDefaults t) vs w rest hw h
      (fun x hx y hy hp r => rf_dec t x y ha (hv.1 x hx) hy hp r)
  | .struct a fs, v, w, ha, hv, hw, h, rest => by
    simp only [accepted, Bool.and_eq_true] at ha
    cases v <;> simp [hasTy] at hv
    rename_i vs
    have hitems := rf_fields fs vs ha.1.1.1.2 hv
    simp only [rf] at h
    simp only [decTy, withDefaults, structDec]
    cases htr : a.transparent
    · rw [htr] at h
      simp only [Bool.false_eq_true, if_false] at h ⊢
      cases hu : untagW a.tag w with
      | none => rw [hu] at h; simp at h
      | some body =>
        rw [hu] at h
        simp only at h
        cases hbc : bodyCells (a.enc.getD .array) fs vs body with
        | none => rw [hbc] at h; simp at h
        | some cell =>
          rw [hbc] at h
          obtain ⟨htc, hbody⟩ := tag_rf a.tag w body rest hw hu
          have := body_reframed _ fs vs body rest ha.1.1.1.2 (C08.nodupNat_nodup _ ha.1.1.2) hv hbody cell hbc h hitems
          rw [Dec.bind_run, htc]
          simp only []
          rw [Dec.bind_run, this]
          rfl
    · rw [htr] at h
      simp only [if_true] at h ⊢
      have h1 := ha.2
      simp only [htr, Bool.not_true, Bool.false_or, Bool.and_eq_true] at h1
      match fs, vs, hv, h1, hitems, h with
      | [(fa, ft)], [x], _, h1, hitems, h =>
        have hs : fa.skip = false := by simpa using h1.2
        simp only [rfOne] at h
        have := hitems.1 hs w hw h rest
        simp only [decFields, transparentDec, defaultsFields, hs, Bool.false_eq_true, if_false, Dec.bind_run, this]
        rfl
      | [(fa, ft)], [], hv, _, _, _ => simp [hasFields] at hv
      | [(fa, ft)], _ :: _ :: _, hv, _, _, _ => simp [hasFields] at hv
      | [], _, _, h1, _, _ => simp at h1
      | _ :: _ :: _, _, _, h1, _, _ => simp at h1
  | .enum a vars, v, w, ha, hv, hw, h, rest => by
    have ha' := ha
    simp only [accepted, Bool.and_eq_true] at ha'
    cases v <;> simp [hasTy] at hv
    rename_i k vs
    simp only [withDefaults]
    exact enum_reframed a vars k vs w rest ha hv hw h (rf_vars a vars k vs ha'.1.1.2 hv)
termination_by structural t => t
theorem rf_fields : ∀ (fs : Fields) (vs : List Derive.Val), acceptedFields fs = true → hasFields fs vs = true →
    FieldsRF fs vs
  | [], _, _, _ => trivial
  | (a, t) :: fs, [], _, _ => trivial
  | (a, t) :: fs, v :: vs, ha, hv => by
    simp only [acceptedFields, Bool.and_eq_true, Bool.or_eq_true] at ha
    simp only [hasFields, Bool.and_eq_true] at hv
    refine ⟨?_, rf_fields fs vs ha.2 hv.2⟩
    intro hs y hy hr r
    have hco : codecOk a.codec t = true := by
      have := ha.1.1
      simp only [fieldAttrOk, hs, Bool.false_eq_true, if_false, Bool.and_eq_true] at this
      exact this.1.2
    have hbody : rf t v y = true → decTy t (encW y ++ r) = .ok (withDefaults t v) r := by
      intro hr'
      rcases ha.1.2 with hb | hacc
      · exact blob_rf t v y r hb hv.1 hy hr'
      · exact rf_dec t v y hacc hv.1 hy hr' r
    cases hcd : a.codec
    · rw [hcd] at hr; simpa [decWith] using hbody (by simpa [rfWith] using hr)
    · rw [hcd] at hr; simpa [decWith] using hbody (by simpa [rfWith] using hr)
    · rw [hcd] at hco hr
      have ht : t = .int .u32 := by
        cases t <;> simp [codecOk] at hco
        rename_i k; cases k <;> simp [codecOk] at hco; rfl
      subst ht
      cases v <;> simp [hasTy] at hv
      rename_i i
      simpa [withDefaults] using nilu_rf i y r hv.1 hy hr
termination_by structural fs => fs
theorem rf_vars (e : EAttr) : ∀ (vars : Variants) (k : Nat) (vs : List Derive.Val), acceptedVars e vars = true →
    hasVars vars k vs = true → FieldsRF (nthFields vars k) vs
  | [], _, _, _, hv => by simp [hasVars] at hv
  | (va, fs) :: rest, 0, vs, ha, hv => by
    simp only [acceptedVars, Bool.and_eq_true] at ha
    simp only [hasVars] at hv
    simp only [nthFields]
    exact rf_fields fs vs ha.1.1.1.1.2 hv
  | (va, fs) :: rest, k + 1, vs, ha, hv => by
    simp only [acceptedVars, Bool.and_eq_true] at ha
    simp only [hasVars] at hv
    simp only [nthFields]
    exact rf_vars e rest k vs ha.2 hv
termination_by structural vars => vars
end

/-- **C09, re-framed input** (`derive_decode_reframed_statement` restricted to the re-framings the
    generated decoders accept: `reframes`: strings stay definite, everything else is free): for every accepted schema, every value and every valid wire tree `w` that re-frames
    the derived encoding — heads of any width, definite or indefinite-length struct / variant /
    `Vec` containers, at any nesting depth — decoding `encW w` followed by arbitrary bytes yields
    the value (skipped fields defaulted) and consumes exactly `encW w`. -/
theorem derive_decode_reframed (t : FTy) (v : Derive.Val) (w : WItem) (rest : Bytes) (ha : accepted t = true)
    (hv : hasTy t v = true) (hw : w.Valid) (hrf : reframes t v w = true) :
    deriveDecode t (encW w ++ rest) = .ok (withDefaults t v) rest :=
  rf_dec t v w ha hv hw hrf rest

/-! the relation contains the encoder's own framing: the preferred tree of the documented item
    (whose bytes are the derived encoding, C08) re-frames every value — so `derive_decode_reframed`
    contains the round trip, for every schema. -/

theorem blob_pref (t : FTy) (v : Derive.Val) (hb : fieldBlob t = true) (hv : hasTy t v = true) :
    rf t v (prefTree (specTy t v)) = true := by
  cases t with
  | blob k =>
    cases v <;> simp [hasTy] at hv
    simp [rf, specTy, prefTree, isBytesW]
  | option t' =>
    cases t' <;> simp [fieldBlob] at hb
    cases v <;> simp [hasTy] at hv
    · rfl
    · rename_i k x
      cases x <;> simp [hasTy] at hv
      simp [rf, specTy, prefTree, isBytesW, isNullW]
  | _ => simp [fieldBlob] at hb

mutual
theorem pref_rf : ∀ (t : FTy) (v : Derive.Val), accepted t = true → hasTy t v = true → noClash t v = true →
    rf t v (prefTree (specTy t v)) = true
  | .int k, v, _, hv, _ => by
    cases v <;> simp [hasTy] at hv
    rename_i i
    simp only [rf, specTy, intItem]
    split
    · simp only [prefTree, isIntW, beq_iff_eq]; omega
    · simp only [prefTree, isIntW, beq_iff_eq]; omega
  | .bool, v, _, hv, _ => by
    cases v <;> simp [hasTy] at hv
    simp [rf, specTy, prefTree, isBoolW]
  | .text k, v, _, hv, _ => by
    cases v <;> simp [hasTy] at hv
    simp [rf, specTy, prefTree, isTextW]
  | .blob k, v, _, hv, _ => by
    cases v <;> simp [hasTy] at hv
    simp [rf, specTy, prefTree, isBytesW]
  | .option t, v, ha, hv, hc => by
    simp only [accepted] at ha
    cases v <;> simp [hasTy] at hv
    · rfl
    · rename_i x
      simp only [noClash, Bool.and_eq_true] at hc
      simp only [rf, specTy, Bool.and_eq_true, Bool.not_eq_true']
      refine ⟨?_, pref_rf t x ha hv hc.2⟩
      cases hn : isNullW (prefTree (specTy t x))
      · rfl
      · exfalso
        have h1 := hc.1
        rw [C08.enc_spec t x ha hv, encPref, isNullW_eq _ hn] at h1
        simp [encW, startOk] at h1
  | .vec t, v, ha, hv, hc => by
    simp only [accepted] at ha
    cases v <;> simp [hasTy] at hv
    rename_i vs
    simp only [noClash, List.all_eq_true] at hc
    simp only [rf, specTy, prefTree, arrItems]
    exact all2_pref t vs (fun x hx => pref_rf t x ha (hv.1 x hx) (hc x hx))
  | .struct a fs, v, ha, hv, hc => by
    simp only [accepted, Bool.and_eq_true] at ha
    cases v <;> simp [hasTy] at hv
    rename_i vs
    simp only [noClash] at hc
    have hp := pref_fields fs vs ha.1.1.1.2 hv hc
    simp only [rf, specTy]
    cases htr : a.transparent
    · simp only [Bool.false_eq_true, if_false, untagW_pref]
      obtain ⟨cell, h1, h2⟩ := body_pref (a.enc.getD .array) fs vs ha.1.1.1.2 hv (C08.nodupNat_nodup _ ha.1.1.2) hp
      simp only [h1, h2]
    · simp only [if_true]
      have h1 := ha.2
      simp only [htr, Bool.not_true, Bool.false_or, Bool.and_eq_true] at h1
      match fs, vs, hv, h1, hp with
      | [(fa, ft)], [x], _, h1, hp =>
        have hs : fa.skip = false := by simpa using h1.2
        simp only [specFields, hs, Bool.false_eq_true, if_false, specTransparent, rfOne]
        exact hp.1 hs
      | [(fa, ft)], [], hv, _, _ => simp [hasFields] at hv
      | [(fa, ft)], _ :: _ :: _, hv, _, _ => simp [hasFields] at hv
      | [], _, _, h1, _ => simp at h1
      | _ :: _ :: _, _, _, h1, _ => simp at h1
  | .enum a vars, v, ha, hv, hc => by
    simp only [accepted, Bool.and_eq_true] at ha
    cases v <;> simp [hasTy] at hv
    rename_i k vs
    simp only [noClash] at hc
    simp only [rf, specTy, untagW_pref]
    exact rfVars_pref a vars k vs ha.1.1.2 hv (pref_vars a vars k vs ha.1.1.2 hv hc)
termination_by structural t => t
theorem pref_fields : ∀ (fs : Fields) (vs : List Derive.Val), acceptedFields fs = true → hasFields fs vs = true →
    noClashFields fs vs = true → FieldsPref fs vs
  | [], _, _, _, _ => trivial
  | (a, t) :: fs, [], _, _, _ => trivial
  | (a, t) :: fs, v :: vs, ha, hv, hc => by
    simp only [acceptedFields, Bool.and_eq_true, Bool.or_eq_true] at ha
    simp only [hasFields, Bool.and_eq_true] at hv
    simp only [noClashFields, Bool.and_eq_true, Bool.or_eq_true] at hc
    refine ⟨?_, pref_fields fs vs ha.2 hv.2 hc.2⟩
    intro hs
    have hcl : noClash t v = true := by
      rcases hc.1 with h | h
      · rw [hs] at h; cases h
      · exact h
    have hco : codecOk a.codec t = true := by
      have := ha.1.1
      simp only [fieldAttrOk, hs, Bool.false_eq_true, if_false, Bool.and_eq_true] at this
      exact this.1.2
    have hbody : rf t v (prefTree (specTy t v)) = true := by
      rcases ha.1.2 with hb | hacc
      · exact blob_pref t v hb hv.1
      · exact pref_rf t v hacc hv.1 hcl
    cases hcd : a.codec
    · simpa [rfWith, specWith] using hbody
    · simpa [rfWith, specWith] using hbody
    · rw [hcd] at hco
      have ht : t = .int .u32 := by
        cases t <;> simp [codecOk] at hco
        rename_i k; cases k <;> simp [codecOk] at hco; rfl
      subst ht
      cases v <;> simp [hasTy] at hv
      rename_i i
      simp only [rfWith, specWith, Derive.Val.isZero]
      by_cases h0 : i = 0
      · subst h0; rfl
      · have : (i == 0) = false := by simpa using h0
        simp [this, prefTree, isUintW]
termination_by structural fs => fs
theorem pref_vars (e : EAttr) : ∀ (vars : Variants) (k : Nat) (vs : List Derive.Val), acceptedVars e vars = true →
    hasVars vars k vs = true → noClashVars vars k vs = true → FieldsPref (nthFields vars k) vs
  | [], _, _, _, hv, _ => by simp [hasVars] at hv
  | (va, fs) :: rest, 0, vs, ha, hv, hc => by
    simp only [acceptedVars, Bool.and_eq_true] at ha
    simp only [hasVars] at hv
    simp only [noClashVars] at hc
    simp only [nthFields]
    exact pref_fields fs vs ha.1.1.1.1.2 hv hc
  | (va, fs) :: rest, k + 1, vs, ha, hv, hc => by
    simp only [acceptedVars, Bool.and_eq_true] at ha
    simp only [hasVars] at hv
    simp only [noClashVars] at hc
    simp only [nthFields]
    exact pref_vars e rest k vs ha.2 hv hc
termination_by structural vars => vars
end

/-- the encoder's own framing is a re-framing (for every schema and value outside the
    `Some(x) = null` exclusion) … -/
theorem reframes_preferred (t : FTy) (v : Derive.Val) (ha : accepted t = true) (hv : hasTy t v = true)
    (hc : noClash t v = true) : reframes t v (prefTree (specTy t v)) = true :=
  pref_rf t v ha hv hc

/-- … hence the round trip is the instance `w = prefTree (specTy t v)` of `derive_decode_reframed`
    (C08: `encW (prefTree (specTy t v)) = deriveEncode t v`; that tree is valid: `spec_valid`). -/
theorem derive_roundtrip_from_reframed (t : FTy) (v : Derive.Val) (rest : Bytes) (ha : accepted t = true)
    (hv : hasTy t v = true) (hc : noClash t v = true) :
    deriveDecode t (deriveEncode t v ++ rest) = .ok (withDefaults t v) rest := by
  have h := derive_decode_reframed t v (prefTree (specTy t v)) rest ha hv (spec_valid t v ha hv)
    (reframes_preferred t v ha hv hc)
  have h2 := C08.derive_encode_spec t v ha hv
  unfold specEncode encPref at h2
  rw [h2]; exact h

/-! the relation is sound for the documented format: a tree in `reframes t v` has the documented
    data-model value and no chunked strings — the trees of `derive_decode_reframed` are trees of
    `derive_decode_reframed_statement`. -/

theorem blob_snd (t : FTy) (v : Derive.Val) (y : WItem) (hb : fieldBlob t = true) (hv : hasTy t v = true)
    (h : rf t v y = true) : Snd y (specTy t v) := by
  cases t with
  | blob k =>
    cases v <;> simp [hasTy] at hv
    simp only [rf] at h
    cases y <;> simp [isBytesW] at h
    subst h
    exact ⟨rfl, rfl⟩
  | option t' =>
    cases t' <;> simp [fieldBlob] at hb
    cases v <;> simp [hasTy] at hv
    · simp only [rf] at h
      exact snd_null y h
    · rename_i k x
      cases x <;> simp [hasTy] at hv
      simp only [rf, Bool.and_eq_true] at h
      cases y <;> simp [isBytesW] at h
      obtain ⟨_, h2⟩ := h
      subst h2
      exact ⟨rfl, rfl⟩
  | _ => simp [fieldBlob] at hb

mutual
theorem val_rf : ∀ (t : FTy) (v : Derive.Val) (w : WItem), accepted t = true → hasTy t v = true → rf t v w = true →
    Snd w (specTy t v)
  | .int k, v, w, _, hv, h => by
    cases v <;> simp [hasTy] at hv
    simp only [rf] at h
    exact snd_int _ w h
  | .bool, v, w, _, hv, h => by
    cases v <;> simp [hasTy] at hv
    simp only [rf] at h
    cases w <;> simp [isBoolW] at h
    subst h
    exact ⟨rfl, rfl⟩
  | .text k, v, w, _, hv, h => by
    cases v <;> simp [hasTy] at hv
    simp only [rf] at h
    cases w <;> simp [isTextW] at h
    subst h
    exact ⟨rfl, rfl⟩
  | .blob k, v, w, _, hv, h => by
    cases v <;> simp [hasTy] at hv
    simp only [rf] at h
    cases w <;> simp [isBytesW] at h
    subst h
    exact ⟨rfl, rfl⟩
  | .option t, v, w, ha, hv, h => by
    simp only [accepted] at ha
    cases v <;> simp [hasTy] at hv
    · simp only [rf] at h
      exact snd_null w h
    · rename_i x
      simp only [rf, Bool.and_eq_true] at h
      simpa only [specTy] using val_rf t x w ha hv h.2
  | .vec t, v, w, ha, hv, h => by
    simp only [accepted] at ha
    cases v <;> simp [hasTy] at hv
    rename_i vs
    simp only [rf] at h
    cases hai : arrItems w with
    | none => rw [hai] at h; simp at h
    | some xs =>
      rw [hai] at h
      obtain ⟨h1, h2⟩ := snd_all2 t vs xs h (fun x hx y _ hr => val_rf t x y ha (hv.1 x hx) hr)
      simpa only [specTy] using snd_arr w xs _ hai h1 h2
  | .struct a fs, v, w, ha, hv, h => by
    simp only [accepted, Bool.and_eq_true] at ha
    cases v <;> simp [hasTy] at hv
    rename_i vs
    have hF := val_fields fs vs ha.1.1.1.2 hv
    simp only [rf] at h
    simp only [specTy]
    cases htr : a.transparent
    · rw [htr] at h
      simp only [Bool.false_eq_true, if_false] at h ⊢
      cases hu : untagW a.tag w with
      | none => rw [hu] at h; simp at h
      | some body =>
        rw [hu] at h
        simp only at h
        cases hbc : bodyCells (a.enc.getD .array) fs vs body with
        | none => rw [hbc] at h; simp at h
        | some cell =>
          rw [hbc] at h
          exact snd_untag a.tag w body _ hu
            (snd_body _ fs vs ha.1.1.1.2 hv (C08.nodupNat_nodup _ ha.1.1.2) hF body cell hbc h)
    · rw [htr] at h
      simp only [if_true] at h ⊢
      have h1 := ha.2
      simp only [htr, Bool.not_true, Bool.false_or, Bool.and_eq_true] at h1
      match fs, vs, hv, h1, hF, h with
      | [(fa, ft)], [x], _, h1, hF, h =>
        have hs : fa.skip = false := by simpa using h1.2
        simp only [rfOne] at h
        simpa only [specFields, hs, Bool.false_eq_true, if_false, specTransparent] using hF.1 hs w h
      | [(fa, ft)], [], hv, _, _, _ => simp [hasFields] at hv
      | [(fa, ft)], _ :: _ :: _, hv, _, _, _ => simp [hasFields] at hv
      | [], _, _, h1, _, _ => simp at h1
      | _ :: _ :: _, _, _, h1, _, _ => simp at h1
  | .enum a vars, v, w, ha, hv, h => by
    simp only [accepted, Bool.and_eq_true] at ha
    cases v <;> simp [hasTy] at hv
    rename_i k vs
    simp only [rf] at h
    simp only [specTy]
    cases hu : untagW a.tag w with
    | none => rw [hu] at h; simp at h
    | some w' =>
      rw [hu] at h
      exact snd_untag a.tag w w' _ hu
        (snd_vars a vars k vs w' ha.1.1.2 hv (val_vars a vars k vs ha.1.1.2 hv) h)
termination_by structural t => t
theorem val_fields : ∀ (fs : Fields) (vs : List Derive.Val), acceptedFields fs = true → hasFields fs vs = true →
    FieldsVal fs vs
  | [], _, _, _ => trivial
  | (a, t) :: fs, [], _, _ => trivial
  | (a, t) :: fs, v :: vs, ha, hv => by
    simp only [acceptedFields, Bool.and_eq_true, Bool.or_eq_true] at ha
    simp only [hasFields, Bool.and_eq_true] at hv
    refine ⟨?_, val_fields fs vs ha.2 hv.2⟩
    intro hs y hr
    have hco : codecOk a.codec t = true := by
      have := ha.1.1
      simp only [fieldAttrOk, hs, Bool.false_eq_true, if_false, Bool.and_eq_true] at this
      exact this.1.2
    have hbody : rf t v y = true → Snd y (specTy t v) := by
      intro hr'
      rcases ha.1.2 with hb | hacc
      · exact blob_snd t v y hb hv.1 hr'
      · exact val_rf t v y hacc hv.1 hr'
    cases hcd : a.codec
    · rw [hcd] at hr; simpa [specWith] using hbody (by simpa [rfWith] using hr)
    · rw [hcd] at hr; simpa [specWith] using hbody (by simpa [rfWith] using hr)
    · rw [hcd] at hco hr
      have ht : t = .int .u32 := by
        cases t <;> simp [codecOk] at hco
        rename_i k; cases k <;> simp [codecOk] at hco; rfl
      subst ht
      cases v <;> simp [hasTy] at hv
      rename_i i
      simp only [rfWith] at hr
      simp only [specWith, Derive.Val.isZero]
      by_cases h0 : i = 0
      · subst h0
        simp only [beq_self_eq_true, if_true] at hr ⊢
        exact snd_null y hr
      · have hne : (i == 0) = false := by simpa using h0
        simp only [hne, Bool.false_eq_true, if_false] at hr ⊢
        exact snd_uint _ y hr
termination_by structural fs => fs
theorem val_vars (e : EAttr) : ∀ (vars : Variants) (k : Nat) (vs : List Derive.Val), acceptedVars e vars = true →
    hasVars vars k vs = true → FieldsVal (nthFields vars k) vs
  | [], _, _, _, hv => by simp [hasVars] at hv
  | (va, fs) :: rest, 0, vs, ha, hv => by
    simp only [acceptedVars, Bool.and_eq_true] at ha
    simp only [hasVars] at hv
    simp only [nthFields]
    exact val_fields fs vs ha.1.1.1.1.2 hv
  | (va, fs) :: rest, k + 1, vs, ha, hv => by
    simp only [acceptedVars, Bool.and_eq_true] at ha
    simp only [hasVars] at hv
    simp only [nthFields]
    exact val_vars e rest k vs ha.2 hv
termination_by structural vars => vars
end

/-- **`reframes` is sound for the documented format**: a tree in the relation has the documented
    data-model value and no chunked strings. -/
theorem reframes_sound (t : FTy) (v : Derive.Val) (w : WItem) (ha : accepted t = true) (hv : hasTy t v = true)
    (h : reframes t v w = true) : value w = specTy t v ∧ noChunks w = true :=
  val_rf t v w ha hv h

/-- the theorem in the shape of `derive_decode_reframed_statement`, with the one extra (decidable)
    hypothesis `reframes t v w` — which, by `reframes_sound`, already implies the statement's
    `value w = specTy t v` and `noChunks w`; and by `reframes_complete` is implied by them:
    the extra hypothesis is redundant (`derive_decode_reframed_full`). -/
theorem derive_decode_reframed_partial2 (t : FTy) (v : Derive.Val) (w : WItem) (rest : Bytes) (ha : accepted t = true)
    (hv : hasTy t v = true) (_hc : noClash t v = true) (hw : w.Valid) (_hval : value w = specTy t v)
    (_hnc : noChunks w = true) (hrf : reframes t v w = true) :
    deriveDecode t (encW w ++ rest) = .ok (withDefaults t v) rest :=
  derive_decode_reframed t v w rest ha hv hw hrf

/-- non-vacuity: every head widened, the struct body and the inner map indefinite, tags at widths
    2 and 8; the former K8 tree (indefinite enum wrapper) and the same tree with a definite wrapper. -/
def exReframedStruct : WItem :=
  .tag .w2 9 (.arrayI [.text .w1 [0x61], .simple 22, .simple 22, .tag .w8 5 (.uint .w4 7)])
def exReframedEnum : WItem :=
  .array .w1 [.uint .w2 7, .tag .w1 1 (.mapI [.uint .w1 2, .tag .w0 9 (.array .w2 [.text .w0 [], .uint .w8 5])])]

theorem reframed_examples :
    exReframedStruct.valid = true ∧
    reframes C08.exStruct (.struct [.some (.int 7), .text [0x61], .int 0, .bool true]) exReframedStruct = true ∧
    exReframedEnum.valid = true ∧
    reframes C08.exEnum (.enum 1 [.some (.struct [.none, .text [], .int 5, .bool false])]) exReframedEnum = true ∧
    reframes k8Type (.enum 0 []) k8Wire = true ∧
    reframes k8Type (.enum 0 []) (.array .w1 [.uint .w2 0, .arrayI []]) = true := by
  refine ⟨by decide, by decide, by decide, by decide, by decide, by decide⟩

example : deriveDecode C08.exStruct (encW exReframedStruct ++ [1])
    = .ok (.struct [.some (.int 7), .text [0x61], .int 0, .bool false]) [1] :=
  derive_decode_reframed C08.exStruct (.struct [.some (.int 7), .text [0x61], .int 0, .bool true]) exReframedStruct [1]
    (by rfl) (by rfl) (by decide) (by decide)

example : deriveDecode k8Type (encW k8Wire ++ [1]) = .ok (.enum 0 []) [1] :=
  derive_decode_reframed k8Type (.enum 0 []) k8Wire [1] (by rfl) (by rfl) (by decide) (by decide)

example : deriveDecode k8Type (encW (.array .w1 [.uint .w2 0, .arrayI []]) ++ [1]) = .ok (.enum 0 []) [1] :=
  derive_decode_reframed k8Type (.enum 0 []) (.array .w1 [.uint .w2 0, .arrayI []]) [1] (by rfl) (by rfl) (by decide) (by decide)

/-! ### the exclusion is necessary; non-vacuity -/

/-- `Option<Option<u8>>`: `Some(None)` is written as `null` and comes back as `None`. -/
theorem null_clash_counterexample :
    let t : FTy := .struct {} [({ idx := 0 }, .vec (.option (.option (.int .u8))))]
    let v : Derive.Val := .struct [.list [.some .none]]
    accepted t = true ∧ hasTy t v = true ∧ noClash t v = false ∧
      deriveDecode t (deriveEncode t v) = .ok (.struct [.list [.none]]) [] := by
  refine ⟨rfl, rfl, rfl, rfl⟩

example : noClash C08.exStruct (.struct [.some (.int 7), .text [0x61], .int 0, .bool true]) = true := by rfl
example : deriveDecode C08.exStruct (deriveEncode C08.exStruct (.struct [.some (.int 7), .text [0x61], .int 0, .bool true]) ++ [1, 2])
    = .ok (.struct [.some (.int 7), .text [0x61], .int 0, .bool false]) [1, 2] := by rfl

/-! ### completeness of `reframes`: the full statement

`rf` only looks at the data-model value of a tree (Lemmas/DeriveReframeSim.lean): trees without
chunked strings that have the same value are in the relation together.  The preferred tree of
the documented value is in the relation (`pref_rf`), so EVERY valid tree with the documented value
and unchunked strings is — and `derive_decode_reframed` becomes the statement itself. -/

mutual
theorem rf_sim : ∀ (t : FTy) (v : Derive.Val) (w1 w2 : WItem), accepted t = true → hasTy t v = true →
    rf t v w1 = true → Sim w1 w2 → rf t v w2 = true
  | .int k, v, w1, w2, _, _, h, hs => by
    cases v <;> simp only [rf] at h ⊢ <;> first | exact sim_isIntW _ w1 w2 hs h | cases h
  | .bool, v, w1, w2, _, _, h, hs => by
    cases v <;> simp only [rf] at h ⊢ <;> first | exact sim_isBoolW _ w1 w2 hs h | cases h
  | .text k, v, w1, w2, _, _, h, hs => by
    cases v <;> simp only [rf] at h ⊢ <;> first | exact sim_isTextW _ w1 w2 hs h | cases h
  | .blob k, v, w1, w2, _, _, h, hs => by
    cases v <;> simp only [rf] at h ⊢ <;> first | exact sim_isBytesW _ w1 w2 hs h | cases h
  | .option t, v, w1, w2, ha, hv, h, hs => by
    simp only [accepted] at ha
    cases v with
    | none => simp only [rf] at h ⊢; exact sim_isNullW w1 w2 hs h
    | some x =>
      simp only [hasTy] at hv
      simp only [rf, Bool.and_eq_true, Bool.not_eq_true'] at h ⊢
      exact ⟨by rw [← sim_isNullW_iff w1 w2 hs]; exact h.1, rf_sim t x w1 w2 ha hv h.2 hs⟩
    | _ => simp only [rf] at h; cases h
  | .vec t, v, w1, w2, ha, hv, h, hs => by
    simp only [accepted] at ha
    cases v with
    | list vs =>
      simp [hasTy] at hv
      simp only [rf] at h ⊢
      cases hai : arrItems w1 with
      | none => rw [hai] at h; simp at h
      | some xs =>
        rw [hai] at h
        obtain ⟨ys, hys, hsa⟩ := sim_arrItems w1 w2 hs xs hai
        rw [hys]
        exact sim_all2 t vs xs ys h hsa (fun v' hv' x y hr hxy => rf_sim t v' x y ha (hv.1 v' hv') hr hxy)
    | _ => simp only [rf] at h; cases h
  | .struct a fs, v, w1, w2, ha, hv, h, hs => by
    simp only [accepted, Bool.and_eq_true] at ha
    cases v with
    | struct vs =>
      simp [hasTy] at hv
      have hF := sim_fields fs vs ha.1.1.1.2 hv
      simp only [rf] at h ⊢
      cases htr : a.transparent
      · rw [htr] at h
        simp only [Bool.false_eq_true, if_false] at h ⊢
        cases hu : untagW a.tag w1 with
        | none => rw [hu] at h; simp at h
        | some b1 =>
          rw [hu] at h
          simp only at h
          obtain ⟨b2, hu2, hsb⟩ := sim_untagW a.tag w1 w2 b1 hs hu
          rw [hu2]
          simp only
          cases hbc : bodyCells (a.enc.getD .array) fs vs b1 with
          | none => rw [hbc] at h; simp at h
          | some c1 =>
            rw [hbc] at h
            obtain ⟨c2, hc2, hcs⟩ := sim_bodyCells _ fs vs b1 b2 hsb hv (C08.nodupNat_nodup _ ha.1.1.2) c1 hbc
            rw [hc2]
            exact sim_rfFields fs vs c1 c2 hF hcs h
      · rw [htr] at h
        simp only [if_true] at h ⊢
        -- transparent: the single field
        match fs, vs, hF, h with
        | [(fa, ft)], [fv], hF, h =>
          simp only [rfOne] at h ⊢
          cases hsk : fa.skip
          · exact sim_rfWith fa.codec ft fv w1 w2 hs (fun hr => hF.1 hsk w1 w2 hr hs) h
          · -- a transparent struct's field is not skipped (accepted)
            exfalso
            have := ha.2
            simp [htr, hsk] at this
        | [], _, _, h => simp [rfOne] at h
        | [_], [], _, h => simp [rfOne] at h
        | [_], _ :: _ :: _, _, h => simp [rfOne] at h
        | _ :: _ :: _, _, _, h => simp [rfOne] at h
    | _ => simp only [rf] at h; cases h
  | .enum e vars, v, w1, w2, ha, hv, h, hs => by
    simp only [accepted, Bool.and_eq_true] at ha
    cases v with
    | enum k vs =>
      simp [hasTy] at hv
      simp only [rf] at h ⊢
      cases hu : untagW e.tag w1 with
      | none => rw [hu] at h; simp at h
      | some b1 =>
        rw [hu] at h
        simp only at h
        obtain ⟨b2, hu2, hsb⟩ := sim_untagW e.tag w1 w2 b1 hs hu
        rw [hu2]
        exact sim_vars e vars k vs b1 b2 ha.1.1.2 hv h hsb
    | _ => simp only [rf] at h; cases h
termination_by structural t => t
theorem sim_fields : ∀ (fs : Fields) (vs : List Derive.Val), acceptedFields fs = true → hasFields fs vs = true → FieldsSim fs vs
  | [], vs, _, _ => by cases vs <;> exact trivial
  | (a, t) :: fs, [], _, _ => trivial
  | (a, t) :: fs, v :: vs, ha, hv => by
    simp only [acceptedFields, Bool.and_eq_true, Bool.or_eq_true] at ha
    simp only [hasFields, Bool.and_eq_true] at hv
    refine ⟨?_, sim_fields fs vs ha.2 hv.2⟩
    intro _ y1 y2 hr hxy
    rcases ha.1.2 with hb | hacc
    · -- a byte-string field: the relation is a leaf test
      cases t with
      | blob kd =>
        cases v <;> simp only [rf] at hr ⊢ <;> first | exact sim_isBytesW _ y1 y2 hxy hr | cases hr
      | option t' =>
        cases t' <;> simp [fieldBlob] at hb
        cases v with
        | none => simp only [rf] at hr ⊢; exact sim_isNullW y1 y2 hxy hr
        | some x =>
          simp only [rf, Bool.and_eq_true, Bool.not_eq_true'] at hr ⊢
          refine ⟨by rw [← sim_isNullW_iff y1 y2 hxy]; exact hr.1, ?_⟩
          cases x <;> simp only [rf] at hr ⊢ <;> first | exact sim_isBytesW _ y1 y2 hxy hr.2 | exact absurd hr.2 (by simp)
        | _ => simp only [rf] at hr; cases hr
      | _ => simp [fieldBlob] at hb
    · exact rf_sim t v y1 y2 hacc hv.1 hr hxy
termination_by structural fs => fs
theorem sim_vars (e : EAttr) : ∀ (vars : Variants) (k : Nat) (vs : List Derive.Val) (w1 w2 : WItem), acceptedVars e vars = true →
    hasVars vars k vs = true → rfVars e vars k vs w1 = true → Sim w1 w2 → rfVars e vars k vs w2 = true
  | [], _, _, _, _, _, _, h, _ => by simp [rfVars] at h
  | (va, fs) :: rest, 0, vs, w1, w2, ha, hv, h, hs => by
    simp only [acceptedVars, Bool.and_eq_true, decide_eq_true_eq] at ha
    simp only [hasVars] at hv
    obtain ⟨⟨⟨⟨⟨⟨_, _⟩, hacc⟩, hnd⟩, _⟩, _⟩, _⟩ := ha
    have hF := sim_fields fs vs hacc hv
    simp only [rfVars] at h ⊢
    cases hix : e.indexOnly
    · rw [hix] at h
      simp only [Bool.false_eq_true, if_false] at h ⊢
      obtain ⟨kx, bx, body, hpair, hkx, hub, hcond⟩ := pair_inv va _ fs vs w1 h
      obtain ⟨kx', bx', hpair', hk', hb'⟩ := sim_pairItems w1 w2 kx bx hs hpair
      obtain ⟨body', hub', hbs⟩ := sim_untagW va.tag bx bx' body hb' hub
      simp only [hpair', sim_isUintW _ kx kx' hk' hkx, Bool.true_and, hub']
      cases hsh : va.shape
      · rw [hsh] at hcond
        exact sim_isEmptyW _ body body' hbs hcond
      all_goals
        rw [hsh] at hcond
        simp only at hcond ⊢
        cases hbc : bodyCells (va.enc.getD (e.enc.getD .array)) fs vs body with
        | none => rw [hbc] at hcond; simp at hcond
        | some c1 =>
          rw [hbc] at hcond
          obtain ⟨c2, hc2, hcs⟩ := sim_bodyCells _ fs vs body body' hbs hv (C08.nodupNat_nodup _ hnd) c1 hbc
          rw [hc2]
          exact sim_rfFields fs vs c1 c2 hF hcs hcond
    · rw [hix] at h
      simp only [if_true] at h ⊢
      exact sim_isUintW _ w1 w2 hs h
  | (va, fs) :: rest, k + 1, vs, w1, w2, ha, hv, h, hs => by
    simp only [acceptedVars, Bool.and_eq_true] at ha
    simp only [hasVars] at hv
    simp only [rfVars] at h ⊢
    exact sim_vars e rest k vs w1 w2 ha.2 hv h hs
termination_by structural vars => vars
end

/-- **`reframes` is complete for the documented format**: every tree with the documented value and
    without chunked strings is a re-framing of the encoding. -/
theorem reframes_complete (t : FTy) (v : Derive.Val) (w : WItem) (ha : accepted t = true) (hv : hasTy t v = true)
    (hc : noClash t v = true) (hval : value w = specTy t v) (hnc : noChunks w = true) : reframes t v w = true := by
  have hp := pref_rf t v ha hv hc
  have hs := val_rf t v _ ha hv hp
  exact rf_sim t v (prefTree (specTy t v)) w ha hv hp ⟨by rw [hs.1, hval], hs.2, hnc⟩

/-- **C09, re-framed input, full statement**: for every accepted schema, every value (outside the
    documented `Some(x) = null` exclusion) and EVERY valid wire tree that carries the documented
    value without chunking a string — heads of any width, every container (struct / variant bodies,
    `Vec`s, the enum wrapper) definite or indefinite, at any nesting depth — the derived decoder
    returns the value (skipped fields defaulted) and consumes exactly the item. -/
theorem derive_decode_reframed_full : derive_decode_reframed_statement := by
  intro t v w rest ha hv hc hw hval hnc
  exact derive_decode_reframed t v w rest ha hv hw (reframes_complete t v w ha hv hc hval hnc)

end Minicbor.C09
