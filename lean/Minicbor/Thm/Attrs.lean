/-
  The attribute front end of the derive macros (model: Minicbor/Attrs.lean) — property theorems.

  C08–C10 quantify over "every type definition accepted by the derive macros".  Which definitions
  those are, and what each accepted definition means (index, tag, codec functions of every field),
  is decided by the front end modelled in `Attrs.lean`.  Its Rust original moves the entries of a
  per-attribute `HashMap` into the accumulated map **in HashMap iteration order**, which std
  randomises per process.  No test can sample that; the theorems below settle it:

  * `fromAttrs_order_irrelevant`, `structSem_order_irrelevant`, `enumSem_order_irrelevant`:
    acceptance and the resulting meaning of a definition do not depend on that order — for every
    level, every attribute list, every pair of valid iteration orders.
  * `spelling_*`: the alternative spellings the documentation offers (`#[n(i)]` / `#[cbor(n(i))]`,
    `with = "m"` / `encode_with` + `decode_with` + `cbor_len`, `has_nil` / `is_nil` + `nil`, one
    attribute / several) mean the same.
  * `order_sensitive_*`: the *written* order of attributes is not irrelevant for ACCEPTANCE —
    machine-checked witnesses of a definition that is rejected in one order and accepted in another.
  * `accepted_meaning_order_free`: … but it is irrelevant for the MEANING: whenever two field
    definitions state the same items — in any order, grouped into attributes in any way — and both
    are accepted (under any iteration orders), they mean the same (same index, tag, skip, encode /
    is_nil / decode / nil / cbor_len functions).  No definition is accepted with two meanings.
-/
import Minicbor.Lemmas.AttrsInv
import Minicbor.Lemmas.AttrsMeaning

namespace Minicbor.Attrs

/-- a valid iteration order returns the entries of the map, each exactly once, in some order. -/
def Order.Valid (ord : Order) : Prop := ∀ m : A, (ord m).Perm m.entries

theorem Order.canonical_valid : Order.Valid Order.canonical := fun _ => List.Perm.refl _

/-- reversed slot order: a second valid order (non-vacuity of the quantification over orders). -/
def Order.reversed : Order := fun m => m.entries.reverse
theorem Order.reversed_valid : Order.Valid Order.reversed := fun m => List.reverse_perm m.entries

theorem mergeAttrs_order_irrelevant (ord1 ord2 : Order) (h1 : ord1.Valid) (h2 : ord2.Valid) (l : Level) :
    ∀ (attrs : List Attr) (acc : A), Eqv (mergeAttrs ord1 l acc attrs) (mergeAttrs ord2 l acc attrs)
  | [], acc => Eqv.refl _
  | att :: rest, acc => by
    simp only [mergeAttrs]
    cases hm : ofAttr l att with
    | error e => exact Eqv.err _ _
    | ok m =>
      simp only
      have hinv := ofAttr_inv l att m hm
      have hp : (ord1 m).Perm (ord2 m) := (h1 m).trans (h2 m).symm
      have hpw : (ord1 m).Pairwise Indep := ((h1 m).pairwise_iff (fun h => Indep.symm h)).2 (entries_indep m hinv)
      rcases insertAll_perm l hp hpw acc with ⟨e1, e2, h3, h4⟩ | ⟨a', h3, h4⟩
      · simp only [h3, h4]; exact Eqv.err _ _
      · simp only [h3, h4]; exact mergeAttrs_order_irrelevant ord1 ord2 h1 h2 l rest a'

/-- **`Attributes::try_from_iter` does not depend on the HashMap iteration order**: for every level
    and every list of attributes, two valid orders either both reject or produce the same map. -/
theorem fromAttrs_order_irrelevant (ord1 ord2 : Order) (h1 : ord1.Valid) (h2 : ord2.Valid) (l : Level) (attrs : List Attr) :
    Eqv (fromAttrs ord1 l attrs) (fromAttrs ord2 l attrs) := by
  unfold fromAttrs
  rcases mergeAttrs_order_irrelevant ord1 ord2 h1 h2 l attrs {} with ⟨e1, e2, h3, h4⟩ | ⟨a, h3, h4⟩
  · simp only [h3, h4]; exact Eqv.err _ _
  · simp only [h3, h4]; exact Eqv.refl _

theorem fieldsSem_order_irrelevant (ord1 ord2 : Order) (h1 : ord1.Valid) (h2 : ord2.Valid) :
    ∀ fields : List (List Attr), Eqv (fieldsSem ord1 fields) (fieldsSem ord2 fields)
  | [] => Eqv.refl _
  | f :: fs => by
    simp only [fieldsSem]
    rcases fromAttrs_order_irrelevant ord1 ord2 h1 h2 .field f with ⟨e1, e2, h3, h4⟩ | ⟨a, h3, h4⟩
    · simp only [h3, h4]; exact Eqv.err _ _
    · simp only [h3, h4]
      cases fieldSem a with
      | error e => exact Eqv.err _ _
      | ok s =>
        simp only
        rcases fieldsSem_order_irrelevant ord1 ord2 h1 h2 fs with ⟨e1, e2, h5, h6⟩ | ⟨ss, h5, h6⟩
        · simp only [h5, h6]; exact Eqv.err _ _
        · simp only [h5, h6]; exact Eqv.ok _

/-- **a struct definition is accepted, and means the same, under every iteration order.** -/
theorem structSem_order_irrelevant (ord1 ord2 : Order) (h1 : ord1.Valid) (h2 : ord2.Valid)
    (attrs : List Attr) (fields : List (List Attr)) :
    Eqv (structSem ord1 attrs fields) (structSem ord2 attrs fields) := by
  unfold structSem
  rcases fromAttrs_order_irrelevant ord1 ord2 h1 h2 .struct_ attrs with ⟨e1, e2, h3, h4⟩ | ⟨a, h3, h4⟩
  · simp only [h3, h4]; exact Eqv.err _ _
  · simp only [h3, h4]
    rcases fieldsSem_order_irrelevant ord1 ord2 h1 h2 fields with ⟨e1, e2, h5, h6⟩ | ⟨ss, h5, h6⟩
    · simp only [h5, h6]; exact Eqv.err _ _
    · simp only [h5, h6]; exact Eqv.refl _

theorem variantHeads_order_irrelevant (ord1 ord2 : Order) (h1 : ord1.Valid) (h2 : ord2.Valid) :
    ∀ vars : List RawVariant, Eqv (variantHeads ord1 vars) (variantHeads ord2 vars)
  | [] => Eqv.refl _
  | v :: vs => by
    simp only [variantHeads]
    rcases fromAttrs_order_irrelevant ord1 ord2 h1 h2 .variant v.attrs with ⟨e1, e2, h3, h4⟩ | ⟨a, h3, h4⟩
    · simp only [h3, h4]; exact Eqv.err _ _
    · simp only [h3, h4]
      split
      · exact Eqv.err _ _
      · rcases variantHeads_order_irrelevant ord1 ord2 h1 h2 vs with ⟨e1, e2, h5, h6⟩ | ⟨ss, h5, h6⟩
        · simp only [h5, h6]; exact Eqv.err _ _
        · simp only [h5, h6]; exact Eqv.ok _

theorem variantBodies_order_irrelevant (ord1 ord2 : Order) (h1 : ord1.Valid) (h2 : ord2.Valid) (io : Bool) :
    ∀ (vars : List RawVariant) (heads : List A), Eqv (variantBodies ord1 io vars heads) (variantBodies ord2 io vars heads)
  | [], _ => by simp only [variantBodies]; exact Eqv.refl _
  | _ :: _, [] => by simp only [variantBodies]; exact Eqv.refl _
  | v :: vs, a :: as => by
    simp only [variantBodies]
    rcases fieldsSem_order_irrelevant ord1 ord2 h1 h2 v.fields with ⟨e1, e2, h5, h6⟩ | ⟨ss, h5, h6⟩
    · simp only [h5, h6]; exact Eqv.err _ _
    · simp only [h5, h6]
      cases checkUniq ss with
      | error e => exact Eqv.err _ _
      | ok u =>
        simp only
        split
        · exact Eqv.err _ _
        · rcases variantBodies_order_irrelevant ord1 ord2 h1 h2 io vs as with ⟨e1, e2, h7, h8⟩ | ⟨r, h7, h8⟩
          · simp only [h7, h8]; exact Eqv.err _ _
          · simp only [h7, h8]; exact Eqv.ok _

/-- **an enum definition is accepted, and means the same, under every iteration order.** -/
theorem enumSem_order_irrelevant (ord1 ord2 : Order) (h1 : ord1.Valid) (h2 : ord2.Valid)
    (attrs : List Attr) (vars : List RawVariant) :
    Eqv (enumSem ord1 attrs vars) (enumSem ord2 attrs vars) := by
  unfold enumSem
  rcases fromAttrs_order_irrelevant ord1 ord2 h1 h2 .enum_ attrs with ⟨e1, e2, h3, h4⟩ | ⟨a, h3, h4⟩
  · simp only [h3, h4]; exact Eqv.err _ _
  · simp only [h3, h4]
    rcases variantHeads_order_irrelevant ord1 ord2 h1 h2 vars with ⟨e1, e2, h5, h6⟩ | ⟨hs, h5, h6⟩
    · simp only [h5, h6]; exact Eqv.err _ _
    · simp only [h5, h6]
      split
      · exact Eqv.err _ _
      · rcases variantBodies_order_irrelevant ord1 ord2 h1 h2 a.indexOnly vars hs with ⟨e1, e2, h7, h8⟩ | ⟨r, h7, h8⟩
        · simp only [h7, h8]; exact Eqv.err _ _
        · simp only [h7, h8]; exact Eqv.refl _

/-! ### spellings -/

/-- what a field means, for the canonical order (by the theorems above: for every order). -/
def fieldMeaning (attrs : List Attr) : Except Err FieldSem :=
  match fromAttrs Order.canonical .field attrs with
  | .error e => .error e
  | .ok a => fieldSem a

theorem ofAttr_index_spelling (l : Level) (isB : Bool) (i : Nat) :
    ofAttr l (if isB then .b i else .n i) = ofAttr l (.cbor [if isB then .b i else .n i]) := by
  cases isB <;> simp only [ofAttr, insertItems, Item.toVal, Bool.false_eq_true, if_false, if_true]
  all_goals
    cases parseIdx _ i with
    | error e => rfl
    | ok v => simp only; cases tryInsert l {} v <;> rfl

/-- `#[n(i)]` and `#[cbor(n(i))]` (likewise `b`) mean the same — on every level, whatever else is
    written on the item, under every iteration order. -/
theorem spelling_index (ord : Order) (l : Level) (isB : Bool) (i : Nat) (before after : List Attr) :
    fromAttrs ord l (before ++ (if isB then Attr.b i else Attr.n i) :: after)
      = fromAttrs ord l (before ++ Attr.cbor [if isB then Item.b i else Item.n i] :: after) := by
  have key : ∀ (pre : List Attr) (acc : A),
      mergeAttrs ord l acc (pre ++ (if isB then Attr.b i else Attr.n i) :: after)
        = mergeAttrs ord l acc (pre ++ Attr.cbor [if isB then Item.b i else Item.n i] :: after) := by
    intro pre
    induction pre with
    | nil =>
      intro acc
      have h := ofAttr_index_spelling l isB i
      cases isB <;> simp only [Bool.false_eq_true, if_false, if_true, List.nil_append, mergeAttrs] at h ⊢ <;> rw [h]
    | cons x xs ih =>
      intro acc
      simp only [List.cons_append, mergeAttrs]
      cases ofAttr l x with
      | error e => rfl
      | ok m => simp only; cases insertAll l acc (ord m) with
        | error e => rfl
        | ok a' => exact ih a'
  simp only [fromAttrs, key]

/-- `with = "m"` ≡ `encode_with = "m::encode", decode_with = "m::decode", cbor_len = "m::cbor_len"`,
    in one attribute, for every index, tag and module path. -/
theorem spelling_with (i : Nat) (hi : i < U32) (t : Option Nat) (ht : ∀ x, t = some x → x < U64) (m : Path) :
    fieldMeaning [.n i, .cbor ((t.map Item.tag).toList ++ [.with_ m])] =
    fieldMeaning [.n i, .cbor ((t.map Item.tag).toList ++ [.encodeWith (m ++ ["encode"]), .decodeWith (m ++ ["decode"]), .cborLen (m ++ ["cbor_len"])])] := by
  cases t with
  | none =>
    simp [fieldMeaning, fromAttrs, mergeAttrs, ofAttr, insertItems, Item.toVal, parseIdx, hi, tryInsert, allowed, Val.kind, isCluster,
      insertCl, insertRs, insertAll, Order.canonical, A.entries, A.codec, A.encoding, A.index, A.indexOnly, A.transparent, A.typeParam,
      A.nil, A.isNil, A.hasNil, A.contextBound, A.cborLen, A.tag, A.skip, finalChecks, A.len, o2n, b2n, fieldSem, CC.isModule,
      CC.encodePath, CC.decodePath, CC.isNilPath, CC.nilPath, CC.cborLenPath, A.cborLenFn]
  | some x =>
    have := ht x rfl
    simp [fieldMeaning, fromAttrs, mergeAttrs, ofAttr, insertItems, Item.toVal, parseIdx, hi, this, tryInsert, allowed, Val.kind, isCluster,
      insertCl, insertRs, insertAll, Order.canonical, A.entries, A.codec, A.encoding, A.index, A.indexOnly, A.transparent, A.typeParam,
      A.nil, A.isNil, A.hasNil, A.contextBound, A.cborLen, A.tag, A.skip, finalChecks, A.len, o2n, b2n, fieldSem, CC.isModule,
      CC.encodePath, CC.decodePath, CC.isNilPath, CC.nilPath, CC.cborLenPath, A.cborLenFn]

/-- the simp set that evaluates the front end on attribute lists with symbolic paths and numbers. -/
macro "eval_attrs" : tactic => `(tactic|
  simp [fieldMeaning, fromAttrs, mergeAttrs, ofAttr, insertItems, Item.toVal, parseIdx, tryInsert, allowed, Val.kind, isCluster,
      insertCl, insertRs, insertAll, Order.canonical, A.entries, A.codec, A.encoding, A.index, A.indexOnly, A.transparent, A.typeParam,
      A.nil, A.isNil, A.hasNil, A.contextBound, A.cborLen, A.tag, A.skip, finalChecks, A.len, o2n, b2n, fieldSem, CC.isModule,
      CC.encodePath, CC.decodePath, CC.isNilPath, CC.nilPath, CC.cborLenPath, A.cborLenFn, U32, U64])

/-- `with = "m", has_nil` ≡ the five separate functions. -/
theorem spelling_with_has_nil (m : Path) :
    fieldMeaning [.n 1, .cbor [.with_ m, .hasNil]] =
    fieldMeaning [.n 1, .cbor [.encodeWith (m ++ ["encode"]), .isNil (m ++ ["is_nil"]), .decodeWith (m ++ ["decode"]), .nil (m ++ ["nil"]),
                               .cborLen (m ++ ["cbor_len"])]] := by
  eval_attrs

/-- `has_nil` may come before `with`, in the same or in another attribute. -/
theorem spelling_has_nil_first (m : Path) :
    fieldMeaning [.n 1, .cbor [.hasNil, .with_ m]] = fieldMeaning [.n 1, .cbor [.with_ m, .hasNil]] ∧
    fieldMeaning [.cbor [.hasNil], .n 1, .cbor [.with_ m]] = fieldMeaning [.n 1, .cbor [.with_ m, .hasNil]] := by
  constructor <;> eval_attrs

/-- one `#[cbor(...)]` with several items ≡ one attribute per item (here: index, tag, codec). -/
theorem spelling_split_attributes (m : Path) :
    fieldMeaning [.cbor [.n 2, .tag 7, .with_ m]] = fieldMeaning [.cbor [.n 2], .cbor [.tag 7], .cbor [.with_ m]] := by
  eval_attrs

/-- the meaning of the fully spelled nil-aware codec, written out: every function is the one named. -/
theorem meaning_split_codec (e z d y c : Path) :
    fieldMeaning [.n 3, .cbor [.encodeWith e, .isNil z, .decodeWith d, .nil y, .cborLen c]] =
      .ok ⟨false, false, 3, none, some e, some z, some d, some y, some c⟩ := by
  eval_attrs

/-- skip: no index needed, none allowed. -/
theorem meaning_skip : fieldMeaning [.cbor [.skip]] = .ok ⟨true, false, 4294967295, none, none, none, none, none, none⟩ ∧
    fieldMeaning [.n 0, .cbor [.skip]] = .error .skipAlone ∧ fieldMeaning [.cbor [.skip, .tag 1]] = .error .skipAlone := by
  refine ⟨?_, ?_, ?_⟩ <;> eval_attrs

/-- **the written order is not irrelevant** (1): `is_nil` alone, then `decode_with`, then `encode_with`,
    each in its own attribute, is rejected (`is_nil` stays pending: when `encode_with` meets the
    `decode_with` already present, the pending `is_nil` is not picked up) … -/
theorem order_sensitive_rejected (e z d : Path) :
    fieldMeaning [.n 0, .cbor [.isNil z], .cbor [.decodeWith d], .cbor [.encodeWith e]] = .error .isNilNeedsEncodeWith := by
  eval_attrs

/-- … while the same three items with `encode_with` first, or all in one attribute in the rejected
    order, are accepted and mean what they say. -/
theorem order_sensitive_accepted (e z d : Path) :
    fieldMeaning [.n 0, .cbor [.encodeWith e], .cbor [.isNil z], .cbor [.decodeWith d]]
      = .ok ⟨false, false, 0, none, some e, some z, some d, none, none⟩ ∧
    fieldMeaning [.n 0, .cbor [.isNil z, .decodeWith d, .encodeWith e]]
      = .ok ⟨false, false, 0, none, some e, some z, some d, none, none⟩ := by
  constructor <;> eval_attrs

/-- (2) `cbor_len` next to `with` is refused in either order, with different messages. -/
theorem with_cbor_len_exclusive (m c : Path) :
    fieldMeaning [.n 0, .cbor [.with_ m, .cborLen c]] = .error .cborLenWith ∧
    fieldMeaning [.n 0, .cbor [.cborLen c, .with_ m]] = .error .withCborLen := by
  constructor <;> eval_attrs

/-- rejected definitions (non-vacuity of "accepted"): duplicate index, missing index, tag on a
    transparent struct / index_only enum, index_only with a field, transparent with two fields. -/
theorem rejected_examples :
    structSem Order.canonical [] [[.n 0], [.n 0]] = .error .duplicateIndex ∧
    structSem Order.canonical [] [[.n 0], []] = .error .missingIndex ∧
    structSem Order.canonical [.cbor [.transparent, .tag 1]] [[.n 0]] = .error .tagTransparent ∧
    structSem Order.canonical [.cbor [.transparent]] [[.n 0], [.n 1]] = .error .transparentOneField ∧
    enumSem Order.canonical [.cbor [.indexOnly, .tag 1]] [] = .error .tagIndexOnly ∧
    enumSem Order.canonical [.cbor [.indexOnly]] [⟨[.n 0], false, [[.n 0]]⟩] = .error .indexOnlyFields ∧
    enumSem Order.canonical [] [⟨[.n 0], true, []⟩, ⟨[.b 0], true, []⟩] = .error .duplicateIndex ∧
    structSem Order.canonical [.cbor [.indexOnly]] [] = .error .notSupportedOnLevel := by
  refine ⟨?_, ?_, ?_, ?_, ?_, ?_, ?_, ?_⟩ <;>
    simp [structSem, enumSem, fieldsSem, variantHeads, variantBodies, checkUniq, nodup, fromAttrs, mergeAttrs, ofAttr, insertItems, Item.toVal, parseIdx, tryInsert, allowed, Val.kind, isCluster,
      insertCl, insertRs, insertAll, Order.canonical, A.entries, A.codec, A.encoding, A.index, A.indexOnly, A.transparent, A.typeParam,
      A.nil, A.isNil, A.hasNil, A.contextBound, A.cborLen, A.tag, A.skip, finalChecks, A.len, o2n, b2n, fieldSem, CC.isModule,
      CC.encodePath, CC.decodePath, CC.isNilPath, CC.nilPath, CC.cborLenPath, A.cborLenFn, U32, U64]

/-- an accepted struct with a transparent wrapper around one live and one skipped field (the macros
    count only the non-skipped fields). -/
theorem accepted_examples :
    (structSem Order.canonical [.cbor [.transparent]] [[.n 0], [.cbor [.skip]]]).toOption.isSome = true ∧
    (structSem Order.reversed [.cbor [.map, .tag 9]] [[.b 1, .cbor [.tag 2]], [.cbor [.n 0]]]).toOption.isSome = true := by
  constructor <;>
    simp [structSem, fieldsSem, checkUniq, nodup, fromAttrs, mergeAttrs, ofAttr, insertItems, Item.toVal, parseIdx, tryInsert, allowed, Val.kind, isCluster,
      insertCl, insertRs, insertAll, Order.canonical, Order.reversed, A.entries, A.codec, A.encoding, A.index, A.indexOnly, A.transparent, A.typeParam,
      A.nil, A.isNil, A.hasNil, A.contextBound, A.cborLen, A.tag, A.skip, finalChecks, A.len, o2n, b2n, fieldSem, CC.isModule,
      CC.encodePath, CC.decodePath, CC.isNilPath, CC.nilPath, CC.cborLenPath, A.cborLenFn, U32, U64, Except.toOption]

/-! ### the written order never changes the meaning of an accepted field -/

theorem fromAttrs_facts (ord : Order) (hord : ord.Valid) (l : Level) (attrs : List Attr) (a : A) (h : fromAttrs ord l attrs = .ok a) :
    Settled a ∧ ∀ f, f ∈ a.facts ↔ f ∈ factsOfItems (allItems attrs) := by
  unfold fromAttrs at h
  cases hm : mergeAttrs ord l {} attrs with
  | error e => rw [hm] at h; cases h
  | ok a0 =>
    rw [hm] at h; simp only at h
    obtain ⟨rfl, hs⟩ := finalChecks_settled a0 a h
    refine ⟨hs, fun f => ?_⟩
    have := mergeAttrs_facts ord hord l attrs {} a hm f
    simpa [empty_facts] using this

/-- **No definition is accepted with two meanings.**  Two field definitions whose attributes state
    the same items (any order, any grouping into `#[n]` / `#[b]` / `#[cbor(...)]` attributes), both
    accepted — each under an arbitrary HashMap iteration order — mean the same. -/
theorem accepted_meaning_order_free (ord1 ord2 : Order) (h1 : ord1.Valid) (h2 : ord2.Valid) (attrs1 attrs2 : List Attr)
    (hp : (allItems attrs1).Perm (allItems attrs2)) (a1 a2 : A)
    (ha1 : fromAttrs ord1 .field attrs1 = .ok a1) (ha2 : fromAttrs ord2 .field attrs2 = .ok a2) :
    fieldSem a1 = fieldSem a2 := by
  obtain ⟨s1, f1⟩ := fromAttrs_facts ord1 h1 .field attrs1 a1 ha1
  obtain ⟨s2, f2⟩ := fromAttrs_facts ord2 h2 .field attrs2 a2 ha2
  apply fieldSem_of_facts a1 a2 s1 s2
  intro f
  rw [f1, f2]
  simp only [factsOfItems, List.mem_flatMap]
  constructor
  · rintro ⟨it, hit, hf⟩; exact ⟨it, hp.mem_iff.1 hit, hf⟩
  · rintro ⟨it, hit, hf⟩; exact ⟨it, hp.mem_iff.2 hit, hf⟩

/-- … and likewise on the struct, enum and variant level (encoding, tag, transparent, index_only, index). -/
theorem accepted_top_meaning_order_free (ord1 ord2 : Order) (h1 : ord1.Valid) (h2 : ord2.Valid) (l : Level) (attrs1 attrs2 : List Attr)
    (hp : (allItems attrs1).Perm (allItems attrs2)) (a1 a2 : A)
    (ha1 : fromAttrs ord1 l attrs1 = .ok a1) (ha2 : fromAttrs ord2 l attrs2 = .ok a2) :
    topSem a1 = topSem a2 := by
  obtain ⟨_, f1⟩ := fromAttrs_facts ord1 h1 l attrs1 a1 ha1
  obtain ⟨_, f2⟩ := fromAttrs_facts ord2 h2 l attrs2 a2 ha2
  apply topSem_of_facts
  intro f
  rw [f1, f2]
  simp only [factsOfItems, List.mem_flatMap]
  constructor
  · rintro ⟨it, hit, hf⟩; exact ⟨it, hp.mem_iff.1 hit, hf⟩
  · rintro ⟨it, hit, hf⟩; exact ⟨it, hp.mem_iff.2 hit, hf⟩

/-- non-vacuity: the two accepted spellings of `order_sensitive_accepted` state the same items and
    are instances of the theorem (and the rejected third order is outside its hypotheses). -/
theorem accepted_meaning_order_free_example (e z d : Path) :
    (allItems [.n 0, .cbor [.encodeWith e], .cbor [.isNil z], .cbor [.decodeWith d]]).Perm
      (allItems [.n 0, .cbor [.isNil z, .decodeWith d, .encodeWith e]]) := by
  simp only [allItems, List.flatMap_cons, List.flatMap_nil, Attr.items, List.append_nil, List.cons_append, List.nil_append]
  exact List.Perm.cons _ ((List.Perm.swap _ _ _).trans (List.Perm.cons _ (List.Perm.swap _ _ _)))

end Minicbor.Attrs
