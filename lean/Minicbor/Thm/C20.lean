/-
  C20 — Same behaviour in every feature configuration, up to documented differences.
  Property theorems only.

  In the model the feature configuration is an explicit parameter of exactly the functions
  whose Rust source is `cfg`-dependent: `Dec.skip alloc`, `Dec.f32 half`, `Dec.f64 half`
  (and everything built on them).  Every other model function has no such parameter, i.e. is
  the same function in every configuration by construction; the correspondence check runs
  the six separately built libraries against the model instantiated at their configuration.
  The theorems below relate the instantiations to each other.
-/
import Minicbor.Decoder
import Minicbor.Lemmas.Accessors

namespace Minicbor.C20
open Dec

/-- without `half`, a half-precision item is a type error for the `f32` accessor … -/
theorem f32_nohalf_f16_is_type_error (rest : Bytes) :
    Dec.f32 false (0xf9 :: rest) = .err .type (0xf9 :: rest) := by
  simp [Dec.f32, Dec.bind_run, typeMismatch, typeOf]

theorem f64_nohalf_f16_is_type_error (rest : Bytes) :
    Dec.f64 false (0xf9 :: rest) = .err .type (0xf9 :: rest) := by
  simp [Dec.f64, Dec.bind_run, typeMismatch, typeOf]

/-- … and on every other input the accessor behaves exactly as with `half`:
    same value, same error class, same position. -/
theorem f32_half_irrelevant (bs : Bytes) (h : bs.head? ≠ some 0xf9) :
    Dec.f32 false bs = Dec.f32 true bs := by
  cases bs with
  | nil => simp [Dec.f32, Dec.bind_run]
  | cons b rest =>
    have hb : b ≠ 0xf9 := by simpa using h
    simp [Dec.f32, Dec.bind_run, hb]

theorem f64_half_irrelevant (bs : Bytes) (h : bs.head? ≠ some 0xf9) :
    Dec.f64 false bs = Dec.f64 true bs := by
  cases bs with
  | nil => simp [Dec.f64, Dec.bind_run]
  | cons b rest =>
    have hb : b ≠ 0xf9 := by simpa using h
    by_cases hfa : b = 0xfa
    · subst hfa
      have := f32_half_irrelevant (0xfa :: rest) (by simp)
      simp [Dec.f64, Dec.bind_run, this]
    · simp [Dec.f64, Dec.bind_run, hb, hfa]

end Minicbor.C20
