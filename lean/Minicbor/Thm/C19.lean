/-
  C19 — Diagnostic display is total, size-bounded and follows the documented notation.
  Property theorems only; the step function, the termination measure and the potential function
  are in `Lemmas/Display*.lean`.
-/
import Minicbor.Lemmas.TokenBasic
import Minicbor.Lemmas.TokenTree
import Minicbor.Lemmas.DisplayTotal
import Minicbor.Lemmas.DisplayTree
import Minicbor.Lemmas.DisplayBound
import Minicbor.Lemmas.TokenCost

namespace Minicbor.C19
open C11

/-- **`display` is total**: for every byte string the tokenizer finishes without panicking and the
    printer's two loops terminate within their fuels (`mu`, `Lemmas/DisplayTotal.lean`, bounds the
    iterations of the inner loop by `6·tokens + stack`; every round of the outer loop consumes a
    token or returns), so the model always produces an output.  Decoding problems are part of that
    output (see `display_error_inline`), never a failure. -/
theorem display_total (bs : Bytes) : ∃ ps, display bs = some ps := by
  obtain ⟨ts, tail, h1, _, _⟩ := tokenize_spec (bs.length + 1) bs (Nat.lt_succ_self _)
  unfold display
  rw [show tokens bs = some (ts.map TokItem.tok ++ tail) from h1]
  exact displayOuter_total _ _ _ _ (by omega) (by omega)

theorem display_ne_none (bs : Bytes) : display bs ≠ none := by
  obtain ⟨ps, h⟩ := display_total bs
  rw [h]; simp

/-! ### the size bound -/

/-- **The output is bounded by a constant multiple of the input length**: for every byte string,
    `renderedLength (display bs) ≤ 16 · |bs| + 149` — within the `16 · len + 256` the
    correspondence check enforces on the real output.  `renderedLength` (`Lemmas/DisplaySpec.lean`)
    counts the literal text and string payloads and charges `FLOAT_CHARGE = 32` per float piece and
    `ERR_CHARGE = 128` per error text (both texts come from Rust's formatter, outside the model).
    Potential-function argument (`phi`, `Lemmas/DisplayBound.lean`): every emission is paid by a
    consumed token; the rendering of a token plus the 5 bytes of separators / closers it can cause
    cost at most 16 per input byte its decoding consumed (`token_rsize16`: a one-byte head carries
    less than 24, twenty digits need nine bytes, `h'..'` is three characters per payload byte);
    the separators a definite-length container schedules are charged to the `E::N` on top of them,
    which consumes a token or — this is what commit 7258571 changed — reports the end of input
    and returns.  On the pre-fix code this theorem is false (`9a 00 01 86 a0` rendered 200 kB). -/
theorem display_bounded (bs : Bytes) (ps : List Piece) (h : display bs = some ps) :
    renderedLength ps ≤ 16 * bs.length + 149 := by
  unfold display at h
  cases ht : tokens bs with
  | none => rw [ht] at h; cases h
  | some items =>
    rw [ht] at h
    obtain ⟨ex, h1, h2⟩ := displayOuter_bound _ _ _ _ _ h
    have h3 := tokenize_cost _ _ _ ht
    subst h1
    have e : STOP_MAX = 149 := rfl
    rw [e] at h2
    omega

/-- the constants exist (the form of the property text); they are the ones of the check. -/
theorem display_bounded_exists :
    ∃ K K0, K ≤ 16 ∧ K0 ≤ 256 ∧ ∀ bs ps, display bs = some ps → renderedLength ps ≤ K * bs.length + K0 :=
  ⟨16, 149, by omega, by omega, display_bounded⟩

/-- the bound is about the right order: one input byte can cost eleven output bytes (`f7` prints
    `undefined`, plus a separator inside a container). -/
example : display [0x9f, 0xf7, 0xf7, 0xf7, 0xff] =
    some [.lit "[_ ", .lit "undefined", .lit ", ", .lit "undefined", .lit ", ", .lit "undefined", .lit "]"] := by
  decide

/-- decoding problems are reported inline, not as a failure: on the empty stack the printer's
    reaction to a decoding error or to exhausted input inside a container is to append a message
    and stop (here: a truncated definite array and an unknown initial byte). -/
theorem display_error_inline :
    display [0x82, 0x01] = some [.lit "[", .lit "1", .lit ", ", .lit " !!! decoding error: ", .errmsg .eoi] ∧
    display [0x9f, 0x01] = some [.lit "[_ ", .lit "1", .lit " !!! indefinite array not closed"] ∧
    display [0x01, 0xfc] = some [.lit "1", .lit " !!! decoding error: ", .errmsg .type] := by
  refine ⟨?_, ?_, ?_⟩ <;> decide

/-! ### the documented notation -/

/-- **For a sequence of well-formed data items the output is exactly the documented notation** of
    each item (`render`, `Lemmas/DisplaySpec.lean`, written from the syntax summary in `lib.rs`),
    one after the other.  Holds for every valid wire tree: any head widths, any nesting,
    indefinite-length arrays / maps, chunked strings. -/
theorem display_documented_seq (ws : List WItem) (hv : validAll ws = true) :
    display (encWs ws) = some (ws.flatMap render) := by
  have ht : tokens (encWs ws) = some ((toksL ws).map TokItem.tok) :=
    tokens_steps_all (by simpa using steps_items ws hv [])
  unfold display
  rw [ht]
  simp only []
  have hg := good_items ws hv
  have h := displayOuter_items (ditems ws) hg ((toksL ws).length + 2) (8 * (toksL ws).length + 16) []
    (by
      have h2 := good_length (ditems ws) hg
      rw [ditems_toks, ditems_length] at h2
      rw [ditems_length]; omega)
    (by rw [ditems_toks]; omega)
  rw [ditems_toks, ditems_render] at h
  simp only [List.length_map, List.nil_append] at h ⊢
  rw [h]
  congr 1
  clear h ht hg hv
  induction ws with
  | nil => rfl
  | cons w ws ih => simp [renderL, ih]

/-- **For every well-formed data item the output is exactly the documented notation.** -/
theorem display_documented (w : WItem) (hv : w.Valid) : display (encW w) = some (render w) := by
  have := display_documented_seq [w] (by simp [validAll, hv])
  simpa [encWs] using this

/-- non-vacuity / a reading of the notation: a nested item with every kind of container. -/
example :
    display (encW (.map .w1 [.text .w0 [0x61], .arrayI [.uint .w0 1, .bytesI [(.w0, [0xab, 0xcd]), (.w0, [])]],
                              .nint .w0 0, .tag .w0 2 (.textI [])])) =
      some [.lit "{", .lit "\"", .raw [0x61], .lit "\"", .lit ": ", .lit "[_ ", .lit "1", .lit ", ", .lit "(_ ",
            .lit "h'ab cd'", .lit ", ", .lit "h''", .lit ")", .lit "]", .lit ", ", .lit "-1", .lit ": ",
            .lit "2(", .lit "\"\"_", .lit ")", .lit "}"] := by
  decide

/-- concrete evaluations (tests, not the general claim): a definite array with an extreme
    declared length renders its head, reports the end of input inline and stops. -/
theorem display_examples :
    display [0x9a, 0x00, 0x01, 0x86, 0xa0] = some [.lit "[", .lit " !!! decoding error: ", .errmsg .eoi] ∧
    display [0x82, 0x01, 0x02] = some [.lit "[", .lit "1", .lit ", ", .lit "2", .lit "]"] := by
  constructor <;> decide

end Minicbor.C19
