/-
  C19 — Diagnostic display.  Property theorems only.  (placeholder: examples only; the
  general theorems are being added)
-/
import Minicbor.Token

namespace Minicbor.C19

/-- concrete evaluations (tests, not the general claim): a definite array with an extreme
    declared length renders its head, reports the end of input inline and stops. -/
theorem display_examples :
    display [0x9a, 0x00, 0x01, 0x86, 0xa0] = some [.lit "[", .lit " !!! decoding error: ", .errmsg .eoi] ∧
    display [0x82, 0x01, 0x02] = some [.lit "[", .lit "1", .lit ", ", .lit "2", .lit "]"] := by
  constructor <;> decide

end Minicbor.C19
