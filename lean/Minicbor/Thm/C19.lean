/-
  C19 — Diagnostic display is total, size-bounded and follows the documented notation.
  Property theorems only; the step function, the termination measure and the potential function
  are in `Lemmas/Display*.lean`.
-/
import Minicbor.Lemmas.TokenBasic
import Minicbor.Lemmas.DisplayTotal

namespace Minicbor.C19

/-- **`display` is total**: for every byte string the tokenizer finishes without panicking and the
    printer's two loops terminate within their fuels (`mu`, `Lemmas/DisplayTotal.lean`, bounds the
    iterations of the inner loop by `6·tokens + stack`; every round of the outer loop consumes a
    token or returns), so the model always produces an output.  Decoding problems are part of that
    output (see `display_error_inline`), never a failure. -/
theorem display_total (bs : Bytes) : ∃ ps, display bs = some ps := by
  obtain ⟨ts, tail, h1, _, _⟩ := tokenize_spec (bs.length + 1) bs (Nat.lt_succ_self _)
  unfold display
  rw [show tokens bs = some (ts.map TokItem.tok ++ tail) from h1]
  exact displayOuter_total _ _ _ _ (by omega) (by omega)

theorem display_ne_none (bs : Bytes) : display bs ≠ none := by
  obtain ⟨ps, h⟩ := display_total bs
  rw [h]; simp

/-- concrete evaluations (tests, not the general claim): a definite array with an extreme
    declared length renders its head, reports the end of input inline and stops. -/
theorem display_examples :
    display [0x9a, 0x00, 0x01, 0x86, 0xa0] = some [.lit "[", .lit " !!! decoding error: ", .errmsg .eoi] ∧
    display [0x82, 0x01, 0x02] = some [.lit "[", .lit "1", .lit ", ", .lit "2", .lit "]"] := by
  constructor <;> decide

end Minicbor.C19
