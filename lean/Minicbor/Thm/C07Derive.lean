/-
  C07 (derived part) — `CborLen` derived for structs and enums against the derived `Encode`.
  Property theorems only (helper lemmas: Lemmas/DeriveLen.lean).

  `lenTy` transcribes minicbor-derive/src/cbor_len.rs *as it is*.  Its three defects were
  repaired in /repo (K2: map header sized from the declared field count, d85a3d2; KD1: indices
  sized as `i32`, 36d21e9; K3: array encoding, a nil field below the highest present index was
  counted as one byte whatever its tag and nil encoding, 0196d88) and the model follows the
  repaired code, so the full statement `len_exact_derived_statement` is now a theorem
  (`len_exact_derived`, no side condition beyond "accepted schema, well-typed value"); the former
  K2 / KD1 / K3 witnesses are positive obligations.
-/
import Minicbor.Lemmas.DeriveLen
import Minicbor.Thm.C08

namespace Minicbor.C07Derive
open Minicbor.Derive

/-- the full-strength statement of the property for derived types. -/
def len_exact_derived_statement : Prop :=
  ∀ (t : FTy) (v : Derive.Val), accepted t = true → hasTy t v = true → deriveLen t v = (deriveEncode t v).length

/-! ### pieces -/

theorem nil_body_length (a : FAttr) (t : FTy) (v : Derive.Val) (hc : codecOk a.codec t = true) (hv : hasTy t v = true)
    (hn : isNilField a t v = true) : (encWith a.codec (encTy t) v).length = 1 := by
  unfold isNilField at hn
  cases hcd : a.codec <;> rw [hcd] at hn hc <;> simp only at hn
  · simp only [Bool.and_eq_true] at hn
    cases t <;> simp [FTy.isOption] at hn
    cases v <;> simp [Val.isNone] at hn
    rfl
  · simp only [Bool.and_eq_true] at hn
    cases t <;> simp [FTy.isOption] at hn
    cases v <;> simp [Val.isNone] at hn
    rfl
  · cases v <;> simp [Val.isZero] at hn
    subst hn; rfl

theorem encFields_nil_body : ∀ (fs : Fields) (vs : List Derive.Val), acceptedFields fs = true → hasFields fs vs = true →
    ∀ p ∈ encFields fs vs, p.nil = true → p.body.length = 1
  | [], vs, _, _ => by cases vs <;> simp [encFields]
  | (a, t) :: fs, [], _, _ => by simp [encFields]
  | (a, t) :: fs, v :: vs, ha, hv => by
    simp only [acceptedFields, Bool.and_eq_true] at ha
    simp only [hasFields, Bool.and_eq_true] at hv
    have ih := encFields_nil_body fs vs ha.2 hv.2
    cases hs : a.skip
    · intro p hp hn
      simp only [encFields, hs, Bool.false_eq_true, if_false, List.mem_cons] at hp
      rcases hp with rfl | hp
      · have hc : codecOk a.codec t = true := by
          have := ha.1.1
          simp only [fieldAttrOk, hs, Bool.false_eq_true, if_false, Bool.and_eq_true] at this
          exact this.1.2
        exact nil_body_length a t v hc hv.1 hn
      · exact ih p hp hn
    · intro p hp hn
      simp only [encFields, hs, if_true] at hp
      exact ih p hp hn

theorem encFields_ok (fs : Fields) (vs : List Derive.Val) (hacc : acceptedFields fs = true) (hty : hasFields fs vs = true) :
    ∀ p ∈ encFields fs vs, p.idx < U32 ∧ tagOk p.tag = true := by
  intro p hp
  rw [C08.fields_spec fs vs hacc hty] at hp
  obtain ⟨q, hq, rfl⟩ := List.mem_map.1 hp
  exact C08.specFields_ok fs vs hacc q hq

theorem countPresent_perm {β : Type} {l₁ l₂ : List (Piece β)} (h : l₁.Perm l₂) : countPresent l₁ = countPresent l₂ := by
  induction h with
  | nil => rfl
  | cons x _ ih => simp [countPresent, ih]
  | swap x y l => simp [countPresent]; omega
  | trans _ _ ih₁ ih₂ => rw [ih₁, ih₂]

/-- the counters equal the bytes `encode_fields` writes. -/
theorem lenFrame_exact (enc : Encoding) (fs : Fields) (vs : List Derive.Val) (hacc : acceptedFields fs = true)
    (hnd : (liveIdxs fs).Nodup) (hty : hasFields fs vs = true) :
    lenFrame enc ((encFields fs vs).map toLen) = (frame enc (encFields fs vs)).length := by
  have hperm := sortP_perm (encFields fs vs)
  have nd : (idxs (encFields fs vs)).Nodup := by
    rw [C08.fields_spec fs vs hacc hty]
    have : idxs ((specFields fs vs).map toBytes) = idxs (specFields fs vs) := by simp [idxs, Function.comp_def]
    rw [this, C08.specFields_idxs fs vs hty]; exact hnd
  have hasc := sortP_asc _ nd
  have hok : ∀ p ∈ sortP (encFields fs vs), p.idx < U32 ∧ tagOk p.tag = true :=
    fun p hp => encFields_ok fs vs hacc hty p (hperm.mem_iff.1 hp)
  cases enc with
  | array =>
    simp only [lenFrame, frame, sortP_toLen]
    apply lenArray_sorted _ hasc hok
    intro p hp hn
    have hp' := hperm.mem_iff.1 hp
    rw [encFields_nil_body fs vs hacc hty p hp' hn]
    exact Nat.le_refl 1
  | map =>
    simp only [lenFrame, frame, sortP_toLen]
    have hlen : (sortP (encFields fs vs)).length ≤ U32 :=
      idx_lt_length_of_asc _ U32 hasc (fun p hp => (hok p hp).1)
    exact lenMap_sorted _ (by simp [U64, U32] at *; omega) (fun p hp => (hok p hp).2)

theorem listSum_map_len (t : FTy) (ih : ∀ v, hasTy t v = true → lenTy t v = (encTy t v).length) :
    ∀ vs : List Derive.Val, vs.all (hasTy t) = true →
      listSum (vs.map (lenTy t)) = ((vs.map (encTy t)).flatten).length
  | [], _ => rfl
  | v :: vs, h => by
    simp only [List.all_cons, Bool.and_eq_true] at h
    simp only [List.map_cons, listSum, List.flatten_cons, List.length_append, ih v h.1,
      listSum_map_len t ih vs h.2]

theorem blob_len (t : FTy) (v : Derive.Val) (hb : fieldBlob t = true) (hv : hasTy t v = true) :
    lenTy t v = (encTy t v).length := by
  cases t with
  | blob k =>
    cases v <;> simp [hasTy] at hv
    simp only [lenTy, encTy, Enc.bytes, List.length_append, typeLen_length _ _ hv]
  | option t =>
    cases t <;> simp [fieldBlob] at hb
    cases v <;> simp [hasTy] at hv
    · rfl
    · rename_i w
      cases w <;> simp [hasTy] at hv
      simp only [lenTy, encTy, Enc.bytes, List.length_append, typeLen_length _ _ hv]
  | _ => simp [fieldBlob] at hb

/-! ### the theorem -/

mutual
theorem len_exact : ∀ (t : FTy) (v : Derive.Val), accepted t = true → hasTy t v = true →
    lenTy t v = (encTy t v).length
  | .int k, v, _, hv => by
    cases v <;> simp [hasTy] at hv
    simp only [lenTy, encTy, int_length]
  | .bool, v, _, hv => by
    cases v <;> simp [hasTy] at hv
    rename_i b; cases b <;> rfl
  | .text k, v, _, hv => by
    cases v <;> simp [hasTy] at hv
    simp only [lenTy, encTy, Enc.str, List.length_append, typeLen_length _ _ hv.2]
  | .blob k, v, _, hv => by
    cases v <;> simp [hasTy] at hv
    simp only [lenTy, encTy, Enc.bytes, List.length_append, typeLen_length _ _ hv]
  | .option t, v, ha, hv => by
    simp only [accepted] at ha
    cases v <;> simp [hasTy] at hv
    · rfl
    · simp only [lenTy, encTy]; exact len_exact t _ ha hv
  | .vec t, v, ha, hv => by
    simp only [accepted] at ha
    cases v <;> simp [hasTy] at hv
    rename_i vs
    simp only [lenTy, encTy, List.length_append, array_length _ hv.2]
    rw [listSum_map_len t (fun v hv => len_exact t v ha hv) vs (by simpa using hv.1)]
  | .struct a fs, v, ha, hv => by
    simp only [accepted, Bool.and_eq_true] at ha
    cases v <;> simp [hasTy] at hv
    rename_i vs
    have hf := fields_len fs vs ha.1.1.1.2 hv
    simp only [lenTy, encTy, hf]
    cases htr : a.transparent
    · simp only [Bool.false_eq_true, if_false, List.length_append, tagBytes_length _ ha.1.1.1.1]
      rw [lenFrame_exact _ fs vs ha.1.1.1.2 (C08.nodupNat_nodup _ ha.1.1.2) hv]
    · simp only [if_true]
      cases h : encFields fs vs with
      | nil => rfl
      | cons p ps => cases ps <;> simp [transparentLen, transparentBody, toLen]
  | .enum a vars, v, ha, hv => by
    simp only [accepted, Bool.and_eq_true] at ha
    cases v <;> simp [hasTy] at hv
    rename_i k vs
    simp only [lenTy, encTy, List.length_append, tagBytes_length _ ha.1.1.1, vars_len a vars k vs ha.1.1.2 hv]
termination_by structural t => t
theorem fields_len : ∀ (fs : Fields) (vs : List Derive.Val), acceptedFields fs = true → hasFields fs vs = true →
    lenFields fs vs = (encFields fs vs).map toLen
  | [], vs, _, _ => by cases vs <;> simp [lenFields, encFields]
  | (a, t) :: fs, [], _, _ => by simp [lenFields, encFields]
  | (a, t) :: fs, v :: vs, ha, hv => by
    simp only [acceptedFields, Bool.and_eq_true] at ha
    simp only [hasFields, Bool.and_eq_true] at hv
    have ih := fields_len fs vs ha.2 hv.2
    cases hs : a.skip
    · have hbody : lenTy t v = (encTy t v).length := by
        cases hb : fieldBlob t
        · exact len_exact t v (by simpa [hb] using ha.1.2) hv.1
        · exact blob_len t v hb hv.1
      have hw : lenWith a.codec (lenTy t) v = (encWith a.codec (encTy t) v).length := by
        cases hcd : a.codec
        · simpa [lenWith, encWith] using hbody
        · simpa [lenWith, encWith] using hbody
        · cases v <;> simp [lenWith, encWith]
          rename_i i
          by_cases h0 : i = 0
          · subst h0; rfl
          · simp [h0, u32_length]
      simp only [lenFields, encFields, hs, Bool.false_eq_true, if_false, List.map_cons, ih, toLen, hw]
    · simp only [lenFields, encFields, hs, if_true, ih]
termination_by structural fs => fs
theorem vars_len (e : EAttr) : ∀ (vars : Variants) (k : Nat) (vs : List Derive.Val),
    acceptedVars e vars = true → hasVars vars k vs = true →
    lenVars e vars k vs = (encVars e vars k vs).length
  | [], _, _, _, hv => by simp [hasVars] at hv
  | (va, fs) :: rest, 0, vs, ha, hv => by
    simp only [acceptedVars, Bool.and_eq_true, decide_eq_true_eq] at ha
    simp only [hasVars] at hv
    obtain ⟨⟨⟨⟨⟨⟨hidx, htag⟩, hacc⟩, hnd⟩, hunit⟩, hio⟩, _⟩ := ha
    simp only [lenVars, encVars]
    cases hsh : va.shape
    · cases hix : e.indexOnly
      · simp only [Bool.false_eq_true, if_false, List.length_append, u32_length, tagBytes_length _ htag, idxLen]
        cases (va.enc.getD (e.enc.getD .array)) <;> simp [emptyBody, Enc.array, Enc.map, Enc.typeLen] <;> omega
      · simp only [if_true, u32_length, idxLen]
    all_goals
      have hf := fields_len fs vs hacc hv
      simp only [List.length_append, u32_length, tagBytes_length _ htag, idxLen, hf,
        lenFrame_exact _ fs vs hacc (C08.nodupNat_nodup _ hnd) hv]
      simp [Enc.array, Enc.typeLen] <;> omega
  | (va, fs) :: rest, k + 1, vs, ha, hv => by
    simp only [acceptedVars, Bool.and_eq_true] at ha
    simp only [hasVars] at hv
    simp only [lenVars, encVars]
    exact vars_len e rest k vs ha.2 hv
termination_by structural vars => vars
end

/-- **C07 for derived types, full**: the derived length is exactly the number of bytes the derived
    encoder writes — for every accepted schema (any number of fields, any index and tag sizes, both
    encodings at every level, `index_only`, transparent, skip, custom codecs, tagged optional
    fields present or absent at any position, nesting) and every well-typed value. -/
theorem len_exact_derived (t : FTy) (v : Derive.Val) (ha : accepted t = true) (hv : hasTy t v = true) :
    deriveLen t v = (deriveEncode t v).length := len_exact t v ha hv

theorem len_exact_derived_statement_holds : len_exact_derived_statement := len_exact_derived

theorem lenArray_exact (S : List (Piece Bytes)) (hasc : Asc S) (hok : ∀ p ∈ S, p.idx < U32 ∧ tagOk p.tag = true)
    (hnb : ∀ p ∈ S, p.nil = true → 1 ≤ p.body.length) :
    lenArray (S.map toLen) = (frameArray S).length := lenArray_sorted S hasc hok hnb

theorem lenMap_exact (S : List (Piece Bytes)) (hlen : S.length < U64) (hok : ∀ p ∈ S, tagOk p.tag = true) :
    lenMap (S.map toLen) = (frameMap S).length := lenMap_sorted S hlen hok

/-! ### the repaired defects as obligations -/

/-- 24 optional fields `#[n(0)] … #[n(23)]`, map encoding. -/
def k2Fields : Nat → Fields
  | 0 => []
  | n + 1 => k2Fields n ++ [({ idx := n }, .option (.int .u8))]

def k2Type : FTy := .struct { enc := some .map } (k2Fields 24)
def k2Val : Derive.Val := .struct (List.replicate 24 .none)

/-- the former K2 witness (24 declared fields, none present: `a0`), exact since d85a3d2. -/
theorem len_derived_K2_repaired :
    accepted k2Type = true ∧ hasTy k2Type k2Val = true ∧ deriveEncode k2Type k2Val = [0xa0] ∧ deriveLen k2Type k2Val = 1 := by
  refine ⟨by rfl, by rfl, by rfl, by rfl⟩

def k3Type : FTy := .struct {} [({ idx := 0, tag := some 5 }, .option (.int .u8)), ({ idx := 1 }, .int .u8)]

/-- the former K3 witness: `struct{#[n(0)] #[cbor(tag(5))] a: Option<u8>, #[n(1)] b: u8}`,
    `{a: None, b: 1}`: the encoder writes `82 c5 f6 01` (4 bytes); `len` said 3, exact since 0196d88. -/
theorem len_derived_K3_repaired :
    accepted k3Type = true ∧ hasTy k3Type (.struct [.none, .int 1]) = true ∧
      deriveEncode k3Type (.struct [.none, .int 1]) = [0x82, 0xc5, 0xf6, 0x01] ∧ deriveLen k3Type (.struct [.none, .int 1]) = 4 := by
  refine ⟨by rfl, by rfl, by rfl, by rfl⟩

/-- a second K3-shaped witness: two tagged nil fields and a nil-codec field below the last present
    one, then a nil field beyond it (not written, not counted). -/
def k3Type2 : FTy := .struct {}
  [({ idx := 0, tag := some 5 }, .option (.int .u8)), ({ idx := 2, tag := some 1000 }, .option (.int .u8)),
   ({ idx := 3, codec := .nilu }, .int .u32), ({ idx := 5 }, .int .u8), ({ idx := 7, tag := some 9 }, .option (.int .u8))]

theorem len_derived_K3_repaired2 :
    accepted k3Type2 = true ∧ hasTy k3Type2 (.struct [.none, .none, .int 0, .int 1, .none]) = true ∧
      deriveLen k3Type2 (.struct [.none, .none, .int 0, .int 1, .none])
        = (deriveEncode k3Type2 (.struct [.none, .none, .int 0, .int 1, .none])).length ∧
      (deriveEncode k3Type2 (.struct [.none, .none, .int 0, .int 1, .none])).length = 11 := by
  refine ⟨by rfl, by rfl, by rfl, by rfl⟩

def kd1Type : FTy := .struct { enc := some .map } [({ idx := 4294967295 }, .int .u8)]

/-- the former KD1 witness (`#[cbor(map)] struct{#[n(4294967295)] a: u8}`, 7 bytes), exact since 36d21e9. -/
theorem len_derived_KD1_repaired :
    accepted kd1Type = true ∧ hasTy kd1Type (.struct [.int 1]) = true ∧
      deriveEncode kd1Type (.struct [.int 1]) = [0xa1, 0x1a, 0xff, 0xff, 0xff, 0xff, 0x01] ∧ deriveLen kd1Type (.struct [.int 1]) = 7 := by
  refine ⟨by rfl, by rfl, by rfl, by rfl⟩

end Minicbor.C07Derive
