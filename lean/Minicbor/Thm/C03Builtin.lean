/-
  C03, built-in `Encode` impls: every impl writes exactly one well-formed RFC 8949 data item,
  namely the preferred (shortest-head, definite-length) serialisation of the data-model value
  the typed value denotes.  Property theorems only.

  `itemOf t v` (Lemmas/TypesItem.lean) is the data-model value of `v : t`; `encPref` the
  independent reference encoder of Wire.lean.  Side conditions (decidable): `t.WF` (type-level
  constants fit their Rust types), `bs.length < 2^64` (the encoding fits in memory; it bounds
  every length written into a head) and `t.NoBareTag`: `minicbor::data::Tag` is excluded — its
  `Encode` impl writes only a tag head, which on its own or inside a counted container is not a
  data item (`bare_tag_not_an_item`).
-/
import Minicbor.Lemmas.TypesItem

namespace Minicbor.C03

mutual
theorem value_prefTree : ∀ i : Item, value (prefTree i) = i
  | .uint _ | .nint _ | .bytes _ | .text _ | .simple _ | .f16 _ | .f32 _ | .f64 _ => by
      simp [prefTree, value]
  | .array xs => by simp [prefTree, value, values_prefTrees xs]
  | .map kvs => by simp [prefTree, value, values_prefTrees kvs]
  | .tag n x => by simp [prefTree, value, value_prefTree x]
theorem values_prefTrees : ∀ is : List Item, values (prefTrees is) = is
  | [] => by simp [prefTrees, values]
  | x :: xs => by simp [prefTrees, values, value_prefTree x, values_prefTrees xs]
end

/-- **C03, built-in impls.**  Whenever a built-in `Encode` impl succeeds, the bytes are the
    preferred serialisation of the value's data-model item, and that item is valid (so the bytes
    are one well-formed item). -/
theorem builtin_pref (t : Ty) (v : Val) (bs : Bytes)
    (hwf : t.WF = true) (hnb : t.NoBareTag = true)
    (henc : encodeT t v = some bs) (hlen : bs.length < 2 ^ 64) :
    ∃ i, itemOf t v = some i ∧ bs = encPref i ∧ (prefTree i).Valid :=
  pref_all.1 t v bs henc hwf hnb (by simpa [U64] using hlen)

/-- in the vocabulary of Wire.lean: the bytes are the encoding `encW w` of a valid parse tree `w`
    (i.e. exactly one well-formed item) whose data-model value is `itemOf t v`. -/
theorem builtin_wellformed (t : Ty) (v : Val) (bs : Bytes)
    (hwf : t.WF = true) (hnb : t.NoBareTag = true)
    (henc : encodeT t v = some bs) (hlen : bs.length < 2 ^ 64) :
    ∃ w : WItem, w.Valid ∧ bs = encW w ∧ some (value w) = itemOf t v := by
  obtain ⟨i, hi, hb, hv⟩ := builtin_pref t v bs hwf hnb henc hlen
  exact ⟨prefTree i, hv, hb, by rw [value_prefTree, hi]⟩

/-- determinism of the built-in impls: equal values give equal bytes (the model is a function;
    stated for the record). -/
theorem builtin_deterministic (t : Ty) (v : Val) (b1 b2 : Bytes)
    (h1 : encodeT t v = some b1) (h2 : encodeT t v = some b2) : b1 = b2 := by
  rw [h1] at h2; exact Option.some.inj h2

/-- why `Tag` is excluded: `(Tag, u8)` = `(Tag::new(1), 5)` is written as `82 c1 05`: an array head
    announcing two items followed by the single item `1(5)`. -/
theorem bare_tag_not_an_item :
    encodeT .tag (.int 1) = some [0xc1] ∧
    encodeT (.tup [.tag, .int .u8]) (.list [.int 1, .int 5]) = some [0x82, 0xc1, 0x05] ∧
    itemOf (.tup [.tag, .int .u8]) (.list [.int 1, .int 5]) = none := by
  refine ⟨by decide, by decide, by simp [itemOf, itemsTup]⟩

/-- non-vacuity -/
example :
    let t : Ty := .map .str (.seq (.opt (.tup [.int .i16, .tagged 70000 .cstr, .enum [.unit, .f64]])))
    let v : Val := .map [.str [0x61], .list [.some (.list [.int (-300), .tagged (.bytes [1, 2]), .variant 1 (.float 0)]), .none]]
    t.WF = true ∧ t.NoBareTag = true ∧ (encodeT t v).isSome = true := by
  decide

end Minicbor.C03
