/-
  C03, third part — **balanced sequences of Encoder calls**.  Property theorems only.

  A sequence of `Encoder` calls is a `List Token` (`Token.enc t` = the bytes of the `Encoder` method
  `t` stands for, `encodeTokens` = the output of the sequence; Token.lean).  `Balanced ts ws` /
  `balanced ts = some ws` (Balanced.lean) say that the sequence `ts` is balanced and denotes the
  complete items `ws`.  `Token.callOk` = the argument fits the Rust parameter type;
  `NoReservedSimple` excludes `simple(20..=31)` (known finding K1).  Definitions of the statement
  vocabulary: `Lemmas/BalancedSpec.lean` (`callOk`, `NoReservedSimple`, `shortest`, `definite`),
  `Lemmas/TokenSpec.lean` (`toks`, `canon`, `preferred`), `Lemmas/TokenParse.lean` (`itemOfTokens`).
  (This file is separate from `Thm/C03.lean` because the per-head lemmas it builds on import that file.)
-/
import Minicbor.Lemmas.BalancedProps
import Minicbor.Lemmas.SkipParse

namespace Minicbor.C03
open C11

/-- the executable denotation decides the fuel-free specification. -/
theorem balanced_spec (ts : List Token) (ws : List WItem) : balanced ts = some ws ↔ Balanced ts ws :=
  balanced_iff ts ws

/-- full-strength statement: a balanced call sequence (arguments within their Rust types) writes
    exactly the well-formed items it denotes.  False on the code as it is — K1, see below. -/
def ops_denote_statement : Prop :=
  ∀ (ts : List Token) (ws : List WItem), balanced ts = some ws → (∀ t ∈ ts, t.callOk) →
    encodeTokens ts = encWs ws ∧ validAll ws = true

/-- **A balanced sequence of Encoder calls writes exactly the concatenation of the well-formed
    items it denotes — nothing more, nothing less** (`simple(20..=31)` excepted, K1). -/
theorem ops_denote (ts : List Token) (ws : List WItem) (hb : balanced ts = some ws)
    (hok : ∀ t ∈ ts, t.callOk) (hr : NoReservedSimple ts) :
    encodeTokens ts = encWs ws ∧ validAll ws = true :=
  ((balanced_iff ts ws).1 hb).denote fun t ht => ⟨hok t ht, hr t ht⟩

/-- the same for the relational specification. -/
theorem ops_denote_rel (ts : List Token) (ws : List WItem) (hb : Balanced ts ws)
    (hok : ∀ t ∈ ts, t.callOk) (hr : NoReservedSimple ts) :
    encodeTokens ts = encWs ws ∧ validAll ws = true :=
  hb.denote fun t ht => ⟨hok t ht, hr t ht⟩

/-- known finding K1, machine-checked at the level of call sequences: the one-call sequence
    `simple(20)` is balanced and denotes the simple value 20, but the bytes written are `f8 14`,
    not its encoding `f4`. -/
theorem ops_denote_counterexample : ¬ ops_denote_statement := by
  intro h
  have := (h [.simple 20] [.simple 20] rfl (by intro t ht; simp at ht; subst ht; simp [Token.callOk, Token.ok])).1
  revert this
  decide

/-- with `C11.Token.wf` (the hypothesis of the C11 theorems: `callOk` plus "an `F16` token holds a
    half-representable `f32`") in place of `callOk`. -/
theorem callOk_of_wf (t : Token) (h : Token.wf t) : t.callOk := by
  cases t <;> try exact h
  case f16 x =>
    obtain ⟨hh, hlt, rfl⟩ := h
    simpa [Token.callOk, Token.ok] using f16ToF32_lt32 hh hlt

theorem ops_denote_wf (ts : List Token) (ws : List WItem) (hb : balanced ts = some ws)
    (hwf : ∀ t ∈ ts, Token.wf t) (hr : NoReservedSimple ts) :
    encodeTokens ts = encWs ws ∧ validAll ws = true :=
  ops_denote ts ws hb (fun t ht => callOk_of_wf t (hwf t ht)) hr

/-- **"Exactly one data item whose data-model value is the value given"**: a balanced call sequence
    denoting a single item `w` writes `encW w`, `w` is well-formed, the RFC 8949 reference parser
    reads the output back as `w` and stops exactly at its end (whatever follows), and the data-model
    value of `w` is what C11's independent reader `itemOfTokens` — which looks at nothing but the
    arguments of the calls — computes from the call sequence. -/
theorem ops_denote_single (ts : List Token) (w : WItem) (hb : balanced ts = some [w])
    (hok : ∀ t ∈ ts, t.callOk) (hr : NoReservedSimple ts) :
    encodeTokens ts = encW w ∧ w.Valid ∧ itemOfTokens ts = some (value w) ∧
    ∀ rest, parse (encodeTokens ts ++ rest) = some (w, rest) := by
  obtain ⟨e, v⟩ := ops_denote ts [w] hb hok hr
  simp only [encWs, List.append_nil] at e
  simp only [validAll, Bool.and_true] at v
  exact ⟨e, v, balanced_single_value ts w hb, fun rest => by rw [e]; exact parse_encW w rest v⟩

/-- the value part alone needs no hypothesis on the arguments. -/
theorem ops_value (ts : List Token) (w : WItem) (hb : balanced ts = some [w]) :
    itemOfTokens ts = some (value w) :=
  balanced_single_value ts w hb

/-- **Definite heads are shortest**: every definite head in the denotation — integers, string
    lengths (also of the chunks of indefinite strings), array / map lengths, tags — has the least
    width that can carry its argument.  No hypothesis on the arguments. -/
theorem ops_shortest (ts : List Token) (ws : List WItem) (hb : balanced ts = some ws) :
    shortestL ws = true :=
  ((balanced_iff ts ws).1 hb).shortest

/-- in C11's vocabulary: the denotation is in preferred serialisation (shortest heads, and
    `Encoder::f16` never writes a signalling NaN). -/
theorem ops_preferred (ts : List Token) (ws : List WItem) (hb : balanced ts = some ws)
    (hok : ∀ t ∈ ts, t.callOk) : preferredL ws = true :=
  ((balanced_iff ts ws).1 hb).preferred hok

/-- **Identical to the reference encoder**: a balanced call sequence without `begin_*` calls
    denotes definite-length items only and writes exactly the RFC 8949 preferred definite-length
    serialisation (`encPrefs`, Wire.lean) of the data-model values of those items. -/
theorem ops_reference (ts : List Token) (ws : List WItem) (hb : balanced ts = some ws)
    (hok : ∀ t ∈ ts, t.callOk) (hr : NoReservedSimple ts) (hd : ∀ t ∈ ts, t.isBegin = false) :
    definiteL ws = true ∧ ws = prefTrees (values ws) ∧ encodeTokens ts = encPrefs (values ws) := by
  have hB := (balanced_iff ts ws).1 hb
  have h1 := hB.definite hd
  have h2 := (prefTrees_values ws h1 hB.shortest).symm
  refine ⟨h1, h2, ?_⟩
  rw [(ops_denote ts ws hb hok hr).1]
  exact congrArg encWs h2

/-- **Every well-formed item sequence is reachable** (converse): for valid wire trees `ws` — any
    head widths, any nesting, indefinite containers, chunked strings — the call sequence
    `ws.flatMap toks` is balanced and denotes `canonL ws`, the same items with shortest heads. -/
theorem ops_complete (ws : List WItem) (hv : validAll ws = true) :
    balanced (ws.flatMap toks) = some (canonL ws) := by
  rw [← toksL_eq_flatMap]
  exact (balanced_iff _ _).2 (toksL_balanced ws hv)

/-- … and an item sequence already in preferred form denotes itself, so the denotations of balanced
    call sequences are exactly the valid preferred item sequences. -/
theorem ops_complete_preferred (ws : List WItem) (hv : validAll ws = true) (hp : preferredL ws = true) :
    balanced (ws.flatMap toks) = some ws := by
  rw [ops_complete ws hv, canonL_of_preferred ws hp]

/-- compositionality (histories): running one balanced call sequence after another is balanced and
    denotes the items of the first followed by the items of the second. -/
theorem ops_append (a b : List Token) (xs ys : List WItem) (ha : balanced a = some xs)
    (hb : balanced b = some ys) : balanced (a ++ b) = some (xs ++ ys) :=
  (balanced_iff _ _).2 (((balanced_iff a xs).1 ha).append ((balanced_iff b ys).1 hb))

/-- determinism: the denotation of a call sequence is unique. -/
theorem ops_unique (ts : List Token) (ws ws' : List WItem) (h : Balanced ts ws) (h' : Balanced ts ws') :
    ws = ws' :=
  h.unique h'

/-! ### unbalanced sequences are NOT claimed well-formed; non-vacuity -/

/-- `array(2)` followed by one item is not balanced … -/
example : balanced [.array 2, .u8 1] = none := rfl
/-- … and indeed what it writes is not a well-formed item. -/
example : parse (encodeTokens [.array 2, .u8 1]) = none := by decide
/-- a tag head alone (cf. K9), a stray `end`, a non-string inside `begin_bytes`, an odd number of
    items in `begin_map`, a missing `end` are not balanced. -/
example : balanced [.tag 1] = none := rfl
example : balanced [.brk] = none := rfl
example : balanced [.beginBytes, .u8 1, .brk] = none := rfl
example : balanced [.beginMap, .u8 1, .brk] = none := rfl
example : balanced [.beginArray, .u8 1] = none := rfl
example : ¬ ∃ ws, Balanced [.array 2, .u8 1] ws := by
  rintro ⟨ws, h⟩
  have := (balanced_iff _ _).2 h
  revert this
  exact fun h => nomatch h

/-- a balanced sequence using every container call, its denotation and its bytes. -/
example :
    let ts : List Token := [.map 1, .string [0x61], .array 2, .i16 (-200), .beginArray, .tag 1000, .u64 5,
      .beginString, .string [0x62], .string [], .brk, .beginMap, .bool true, .f16 0x3f800000, .brk, .brk,
      .null]
    balanced ts = some [
      .map .w0 [.text .w0 [0x61], .array .w0 [.nint .w1 199,
        .arrayI [.tag .w2 1000 (.uint .w0 5), .textI [(.w0, [0x62]), (.w0, [])],
          .mapI [.simple 21, .f16 0x3c00]]]],
      .simple 22] ∧
    encodeTokens ts = [0xa1, 0x61, 0x61, 0x82, 0x38, 0xc7, 0x9f, 0xd9, 0x03, 0xe8, 0x05, 0x7f, 0x61, 0x62,
      0x60, 0xff, 0xbf, 0xf5, 0xf9, 0x3c, 0x00, 0xff, 0xff, 0xf6] ∧
    (∀ t ∈ ts, t.callOk) ∧ NoReservedSimple ts := by
  refine ⟨rfl, by decide, ?_, ?_⟩
  · intro t ht
    simp only [List.mem_cons, List.not_mem_nil, or_false] at ht
    rcases ht with rfl | rfl | rfl | rfl | rfl | rfl | rfl | rfl | rfl | rfl | rfl | rfl | rfl | rfl | rfl | rfl | rfl <;>
      simp only [Token.callOk] <;> decide
  · intro t ht
    simp only [List.mem_cons, List.not_mem_nil, or_false] at ht
    rcases ht with rfl | rfl | rfl | rfl | rfl | rfl | rfl | rfl | rfl | rfl | rfl | rfl | rfl | rfl | rfl | rfl | rfl <;>
      decide

end Minicbor.C03
