/-
  C09 — Derived Encode/Decode round-trip for every type definition.
  Part 1 (round trip, error reporting, re-framed input) is Thm/C09Round.lean; this file adds the
  borrowing statement.  All theorems live in `namespace Minicbor.C09`.
-/
import Minicbor.Thm.C09Round
import Minicbor.Lemmas.TotalAcc

namespace Minicbor.C09
open Minicbor.Derive Minicbor.Dec

/-! ### borrowing

In the model a decoded string / byte-string leaf *is* the slice `readSlice` cut out of the input:
the accessors used for `&str`, `&ByteSlice`, `&[u8]` and `#[b] Cow` hand back a contiguous
piece of the input ending where the remaining input starts.  Whether the Rust value then holds
that slice or a copy (`String`, `Vec<u8>`, owned `Cow`) is a distinction a pure model cannot
express; it is observed by pointer range in the correspondence run. -/

theorem readSlice_slice (n : Nat) (bs s rest : Bytes) (h : Dec.readSlice n bs = .ok s rest) : bs = s ++ rest := by
  unfold Dec.readSlice at h
  split at h
  · cases h; simp
  · cases h

theorem suffix_exists {r bs : Bytes} (h : r <:+ bs) : ∃ pre, bs = pre ++ r := by
  obtain ⟨p, hp⟩ := h; exact ⟨p, hp.symm⟩

theorem bytes_slice (bs s rest : Bytes) (h : Dec.bytes bs = .ok s rest) : ∃ pre, bs = pre ++ s ++ rest := by
  unfold Dec.bytes at h
  obtain ⟨b, r0, h0, h⟩ := bind_ok_inv h
  split at h
  · exact absurd h (typeMismatch_not_ok _ _ _ _)
  · obtain ⟨n, r1, h1, h⟩ := bind_ok_inv h
    obtain ⟨n', r2, h2, h⟩ := bind_ok_inv h
    have hs := readSlice_slice n' r2 s rest h
    have s0 := (Suffix.read bs).1 _ _ h0
    have s1 := (Suffix.unsigned _ r0).1 _ _ h1
    have s2 := (Suffix.u64ToUsize _ r1).1 _ _ h2
    obtain ⟨pre, hp⟩ := suffix_exists ((s2.trans s1).trans s0)
    exact ⟨pre, by rw [hp, hs]; simp⟩

theorem str_slice (bs s rest : Bytes) (h : Dec.str bs = .ok s rest) : ∃ pre, bs = pre ++ s ++ rest := by
  unfold Dec.str at h
  obtain ⟨b, r0, h0, h⟩ := bind_ok_inv h
  split at h
  · exact absurd h (typeMismatch_not_ok _ _ _ _)
  · obtain ⟨n, r1, h1, h⟩ := bind_ok_inv h
    obtain ⟨n', r2, h2, h⟩ := bind_ok_inv h
    obtain ⟨d, r3, h3, h⟩ := bind_ok_inv h
    split at h
    · cases h
      have hs := readSlice_slice n' r2 s rest h3
      have s0 := (Suffix.read bs).1 _ _ h0
      have s1 := (Suffix.unsigned _ r0).1 _ _ h1
      have s2 := (Suffix.u64ToUsize _ r1).1 _ _ h2
      obtain ⟨pre, hp⟩ := suffix_exists ((s2.trans s1).trans s0)
      exact ⟨pre, by rw [hp, hs]; simp⟩
    · cases h

/-- a decoded string / byte-string leaf is a contiguous slice of the input that ends exactly
    where the remaining input begins. -/
theorem borrowed_leaf_is_input_slice (bs s rest : Bytes) (h : Dec.bytes bs = .ok s rest ∨ Dec.str bs = .ok s rest) :
    ∃ pre, bs = pre ++ s ++ rest := by
  rcases h with h | h
  · exact bytes_slice bs s rest h
  · exact str_slice bs s rest h

end Minicbor.C09
