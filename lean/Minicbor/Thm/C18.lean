/-
  C18 — the serde bridge and the native `Encode` / `Decode` traits interoperate on the shared
  data model.  Property theorems only.  `NType` (Serde.lean) is the shared universe: integers,
  bool, char, floats, strings, unit, `Option`, `Vec`, fixed arrays, tuples, `BTreeMap` and their
  compositions; `natEnc` / `natDec` transcribe minicbor/src/encode.rs / decode.rs for it.
-/
import Minicbor.Thm.C17

namespace Minicbor.C18
open Minicbor.Serde Minicbor.Dec Minicbor.C17

/-! ## typing of the shared universe -/

mutual
/-- `HasN v t`: `v` is (the trace of) a value of the shared Rust type `t`. -/
inductive HasN : SVal → NType → Type
  | bool (b : Bool) : HasN (.bool b) .bool
  | int (k : IntKind) (v : Int) : k.lo ≤ v → v ≤ k.hi → HasN (.int k v) (.int k)
  | f32 (b : Nat) : b < 4294967296 → HasN (.f32 b) .f32
  | f64 (b : Nat) : b < U64 → HasN (.f64 b) .f64
  | char (c : Nat) : isScalar c = true → HasN (.char c) .char
  | str (s : Bytes) : validUtf8 s = true → s.length < U64 → HasN (.str s) .str
  | unit : HasN .unit .unit
  | none (t : NType) : HasN .none (.option t)
  | some (v : SVal) (t : NType) : HasN v t → vok v = true → nullLike v = false → HasN (.some v) (.option t)
  | vec (xs : List SVal) (t : NType) : HasNEach xs t → xs.length < U64 → HasN (.seq true xs) (.vec t)
  | array (xs : List SVal) (t : NType) : HasNEach xs t → xs.length < U64 → HasN (.tuple xs) (.array xs.length t)
  | tuple (xs : List SVal) (ts : List NType) : HasNAll xs ts → xs.length < U64 → HasN (.tuple xs) (.tuple ts)
  | map (kvs : List SVal) (k v : NType) : HasNPairs kvs k v → kvs.length / 2 < U64 → KeysAsc kvs →
      HasN (.map true kvs) (.map k v)
inductive HasNEach : List SVal → NType → Type
  | nil (t : NType) : HasNEach [] t
  | cons (x : SVal) (xs : List SVal) (t : NType) : HasN x t → HasNEach xs t → HasNEach (x :: xs) t
inductive HasNAll : List SVal → List NType → Type
  | nil : HasNAll [] []
  | cons (x : SVal) (xs : List SVal) (t : NType) (ts : List NType) : HasN x t → HasNAll xs ts → HasNAll (x :: xs) (t :: ts)
inductive HasNPairs : List SVal → NType → NType → Type
  | nil (k v : NType) : HasNPairs [] k v
  | cons (a b : SVal) (rest : List SVal) (k v : NType) : HasN a k → HasN b v → HasNPairs rest k v →
      HasNPairs (a :: b :: rest) k v
end

theorem hasNAll_length : {xs : List SVal} → {ts : List NType} → HasNAll xs ts → xs.length = ts.length
  | _, _, .nil => rfl
  | _, _, .cons _ _ _ _ _ h => by simp [hasNAll_length h]

/-! ## 1. identical bytes -/

mutual
/-- **C18 (a).**  For every value of every shared type the bridge and the native `Encode` impl
    write identical bytes. -/
theorem interop_bytes : {v : SVal} → {t : NType} → HasN v t → ser v = natEnc t v
  | _, _, .bool _ => rfl
  | _, _, .int _ _ _ _ => rfl
  | _, _, .f32 _ _ => rfl
  | _, _, .f64 _ _ => rfl
  | _, _, .char _ _ => rfl
  | _, _, .str _ _ _ => rfl
  | _, _, .unit => rfl
  | _, _, .none _ => rfl
  | _, _, .some v t h _ _ => by simp only [ser, natEnc]; exact interop_bytes h
  | _, _, .vec xs t h _ => by simp only [ser, natEnc, if_true]; rw [interop_each h]
  | _, _, .array xs t h _ => by simp only [ser, natEnc]; rw [interop_each h]
  | _, _, .tuple xs ts h _ => by simp only [ser, natEnc]; rw [interop_all h, hasNAll_length h]
  | _, _, .map kvs k v h _ _ => by simp only [ser, natEnc, if_true]; rw [interop_pairs h]
theorem interop_each : {xs : List SVal} → {t : NType} → HasNEach xs t → sers xs = natEncEach t xs
  | _, _, .nil _ => rfl
  | _, _, .cons x xs t h hs => by simp only [sers, natEncEach]; rw [interop_bytes h, interop_each hs]
theorem interop_all : {xs : List SVal} → {ts : List NType} → HasNAll xs ts → sers xs = natEncAll ts xs
  | _, _, .nil => rfl
  | _, _, .cons x xs t ts h hs => by simp only [sers, natEncAll]; rw [interop_bytes h, interop_all hs]
theorem interop_pairs : {kvs : List SVal} → {k v : NType} → HasNPairs kvs k v → sers kvs = natEncPairs k v kvs
  | _, _, _, .nil _ _ => rfl
  | _, _, _, .cons a b rest k v ha hb hs => by
    simp only [sers, natEncPairs]; rw [interop_bytes ha, interop_bytes hb, interop_pairs hs]
end

/-! ## 2. the two decoders -/

mutual
/-- no fixed-size array inside the type -/
def noArray : NType → Bool
  | .option t => noArray t
  | .vec t => noArray t
  | .array _ _ => false
  | .tuple ts => noArrays ts
  | .map k v => noArray k && noArray v
  | _ => true
def noArrays : List NType → Bool
  | [] => true
  | t :: ts => noArray t && noArrays ts
end

mutual
/-- **C18 (b).**  On every shared type without a fixed-size array the native `Decode` impl and
    the bridge are *the same function* of the input bytes (same values, same errors, same
    positions, on arbitrary bytes): both are the same composition of the same `Decoder` calls.
    (`[T; N]` is the one type where they differ: `Decode` uses `array_iter`, serde
    `deserialize_tuple`; see `interop_decode_agree`.) -/
theorem natDec_eq_de : (t : NType) → noArray t = true → natDec t = de t.toS
  | .bool, _ => rfl
  | .int _, _ => rfl
  | .f32, _ => rfl
  | .f64, _ => rfl
  | .char, _ => rfl
  | .str, _ => rfl
  | .unit, _ => rfl
  | .option t, h => by
    simp only [noArray] at h
    simp only [natDec, de, NType.toS, natDec_eq_de t h]
  | .vec t, h => by
    simp only [noArray] at h
    simp only [natDec, de, NType.toS, natDec_eq_de t h]
  | .array _ _, h => by simp [noArray] at h
  | .tuple ts, h => by
    simp only [noArray] at h
    simp only [natDec, de, NType.toS, natDecAll_eq ts h, toSs_length]
  | .map k v, h => by
    simp only [noArray, Bool.and_eq_true] at h
    simp only [natDec, de, NType.toS, natDec_eq_de k h.1, natDec_eq_de v h.2]
theorem natDecAll_eq : (ts : List NType) → noArrays ts = true → natDecAll ts = deAll (NType.toSs ts)
  | [], _ => rfl
  | t :: ts, h => by
    simp only [noArrays, Bool.and_eq_true] at h
    simp only [natDecAll, deAll, NType.toSs, natDec_eq_de t h.1, natDecAll_eq ts h.2]
theorem toSs_length : (ts : List NType) → (NType.toSs ts).length = ts.length
  | [] => rfl
  | _ :: ts => by simp [NType.toSs, toSs_length ts]
end


/-! ### two decoders never disagree -/

/-- whenever both succeed on the same bytes they return the same value and stop at the same place. -/
def Agree (m1 m2 : Dec α) : Prop :=
  ∀ bs a r a' r', m1 bs = .ok a r → m2 bs = .ok a' r' → a = a' ∧ r = r'

theorem bind_ok_inv {m : Dec α} {f : α → Dec β} {bs : Bytes} {b : β} {r : Bytes}
    (h : (m >>= f) bs = .ok b r) : ∃ a r0, m bs = .ok a r0 ∧ f a r0 = .ok b r := by
  rw [Dec.bind_run] at h
  cases hm : m bs with
  | ok a r0 => rw [hm] at h; exact ⟨a, r0, rfl, h⟩
  | err e r0 => rw [hm] at h; cases h
  | panic => rw [hm] at h; cases h

theorem Agree.refl (m : Dec α) : Agree m m := by
  intro bs a r a' r' h1 h2
  rw [h1] at h2; cases h2; exact ⟨rfl, rfl⟩

theorem Agree.bind {m1 m2 : Dec α} {f1 f2 : α → Dec β} (hm : Agree m1 m2) (hf : ∀ a, Agree (f1 a) (f2 a)) :
    Agree (m1 >>= f1) (m2 >>= f2) := by
  intro bs b r b' r' h1 h2
  obtain ⟨a, r0, ha, hb⟩ := bind_ok_inv h1
  obtain ⟨a', r0', ha', hb'⟩ := bind_ok_inv h2
  obtain ⟨rfl, rfl⟩ := hm bs a r0 a' r0' ha ha'
  exact hf a r0 b r b' r' hb hb'

theorem Agree.repeatN {m1 m2 : Dec α} (hm : Agree m1 m2) : ∀ n, Agree (repeatN m1 n) (repeatN m2 n)
  | 0 => Agree.refl _
  | n + 1 => by
    simp only [Serde.repeatN]
    exact Agree.bind hm (fun x => Agree.bind (Agree.repeatN hm n) (fun _ => Agree.refl _))

theorem Agree.untilBreak {m1 m2 : Dec α} (hm : Agree m1 m2) : ∀ fuel, Agree (untilBreak m1 fuel) (untilBreak m2 fuel)
  | 0 => Agree.refl _
  | fuel + 1 => by
    simp only [Serde.untilBreak]
    refine Agree.bind (Agree.refl _) (fun b => ?_)
    split
    · exact Agree.refl _
    · exact Agree.bind hm (fun x => Agree.bind (Agree.untilBreak hm fuel) (fun _ => Agree.refl _))

theorem Agree.seqAccess {m1 m2 : Dec α} (hm : Agree m1 m2) (len : Option Nat) :
    Agree (seqAccess m1 len) (seqAccess m2 len) := by
  cases len with
  | some n => exact Agree.repeatN hm n
  | none =>
    intro bs a r a' r' h1 h2
    exact Agree.untilBreak hm (bs.length + 1) bs a r a' r' h1 h2

theorem Agree.pairM {k1 k2 v1 v2 : Dec α} (hk : Agree k1 k2) (hv : Agree v1 v2) : Agree (pairM k1 v1) (pairM k2 v2) := by
  unfold Serde.pairM
  exact Agree.bind hk (fun _ => Agree.bind hv (fun _ => Agree.refl _))

theorem Agree.mapAccess {k1 k2 v1 v2 : Dec α} (hk : Agree k1 k2) (hv : Agree v1 v2) (len : Option Nat) :
    Agree (mapAccess k1 v1 len) (mapAccess k2 v2 len) := by
  unfold Serde.mapAccess
  exact Agree.bind (Agree.seqAccess (Agree.pairM hk hv) len) (fun _ => Agree.refl _)

theorem deAll_replicate (T : SType) : ∀ n, deAll (List.replicate n T) = repeatN (de T) n
  | 0 => rfl
  | n + 1 => by simp only [List.replicate, deAll, Serde.repeatN, deAll_replicate T n]

/-- while there is room the `ArrayVec` loop is the plain element loop. -/
theorem arrLoopN_spec (m : Dec α) (cap : Nat) : ∀ (k : Nat) (acc : List α) (bs : Bytes), acc.length + k ≤ cap →
    arrLoopN m cap k acc bs = (match repeatN m k bs with
      | .ok ys r => .ok (acc ++ ys) r
      | .err e r => .err e r
      | .panic => .panic)
  | 0, acc, bs, _ => by simp [arrLoopN, Serde.repeatN]
  | k + 1, acc, bs, h => by
    simp only [arrLoopN, Serde.repeatN, Dec.bind_run]
    cases hm : m bs with
    | ok x r0 =>
      have hc : ¬ cap ≤ acc.length := by omega
      simp only [hc, if_false]
      rw [arrLoopN_spec m cap k (acc ++ [x]) r0 (by simp; omega)]
      cases repeatN m k r0 <;> simp
    | err e r0 => rfl
    | panic => rfl

theorem tupleHeader_inv (n : Nat) (bs r : Bytes) (h : tupleHeader n bs = .ok () r) : Dec.array bs = .ok (some n) r := by
  unfold tupleHeader at h
  obtain ⟨len, r0, ha, hb⟩ := bind_ok_inv h
  by_cases hl : len = some n
  · subst hl; simp at hb; cases hb; exact ha
  · have : (len == some n) = false := by simpa using hl
    simp [this] at hb

theorem agree_array (m1 m2 : Dec SVal) (hm : Agree m1 m2) (n : Nat) :
    Agree (do let xs ← natArray m1 n; pure (SVal.tuple xs))
          (do tupleHeader n; let xs ← repeatN m2 n; pure (SVal.tuple xs)) := by
  intro bs a r a' r' h1 h2
  obtain ⟨u, r0, hh, h2'⟩ := bind_ok_inv h2
  obtain ⟨xs', r1, hx', hp'⟩ := bind_ok_inv h2'
  have harr := tupleHeader_inv n bs r0 hh
  obtain ⟨xs, r2, hx, hp⟩ := bind_ok_inv h1
  unfold natArray at hx
  obtain ⟨len, r3, ha, hb⟩ := bind_ok_inv hx
  rw [harr] at ha; cases ha
  obtain ⟨ys, r4, hl, hc⟩ := bind_ok_inv hb
  simp only at hl
  rw [arrLoopN_spec m1 n n [] r0 (by simp)] at hl
  cases hr : repeatN m1 n r0 with
  | ok zs r5 =>
    rw [hr] at hl
    simp only [List.nil_append] at hl
    cases hl
    obtain ⟨e1, e2⟩ := Agree.repeatN hm n r0 _ _ xs' r1 hr hx'
    subst e1; subst e2
    split at hc
    · cases hc; cases hp; cases hp'; exact ⟨rfl, rfl⟩
    · cases hc
  | err e r5 => rw [hr] at hl; cases hl
  | panic => rw [hr] at hl; cases hl

mutual
/-- **C18 (c).**  On *arbitrary* bytes — any framing of any item, well-formed or not — the native
    decoder and the bridge never disagree on a shared type: whenever both return a value it is
    the same value and both stop at the same position (so each side returns that value or an
    error).  Includes fixed-size arrays, where the two sides accept different framings. -/
theorem interop_decode_agree : (t : NType) → Agree (natDec t) (de t.toS)
  | .bool => Agree.refl _
  | .int _ => Agree.refl _
  | .f32 => Agree.refl _
  | .f64 => Agree.refl _
  | .char => Agree.refl _
  | .str => Agree.refl _
  | .unit => Agree.refl _
  | .option t => by
    simp only [natDec, de, NType.toS]
    refine Agree.bind (Agree.refl _) (fun ty => ?_)
    split
    · exact Agree.refl _
    · exact Agree.bind (interop_decode_agree t) (fun _ => Agree.refl _)
  | .vec t => by
    simp only [natDec, de, NType.toS]
    exact Agree.bind (Agree.refl _) (fun len => Agree.bind (Agree.seqAccess (interop_decode_agree t) len) (fun _ => Agree.refl _))
  | .array n t => by
    simp only [natDec, de, NType.toS, List.length_replicate, deAll_replicate]
    exact agree_array _ _ (interop_decode_agree t) n
  | .tuple ts => by
    simp only [natDec, de, NType.toS, toSs_length]
    exact Agree.bind (Agree.refl _) (fun _ => Agree.bind (interop_decode_agree_all ts) (fun _ => Agree.refl _))
  | .map k v => by
    simp only [natDec, de, NType.toS]
    exact Agree.bind (Agree.refl _) (fun len =>
      Agree.bind (Agree.mapAccess (interop_decode_agree k) (interop_decode_agree v) len) (fun _ => Agree.refl _))
theorem interop_decode_agree_all : (ts : List NType) → Agree (natDecAll ts) (deAll (NType.toSs ts))
  | [] => Agree.refl _
  | t :: ts => by
    simp only [natDecAll, deAll, NType.toSs]
    exact Agree.bind (interop_decode_agree t) (fun _ => Agree.bind (interop_decode_agree_all ts) (fun _ => Agree.refl _))
end

/-- the "or an error" is real: an indefinite-length array is accepted for `[u8; 2]` by the native
    decoder (`array_iter`) and rejected by the bridge (`deserialize_tuple` demands a definite
    length) — never read as a different value. -/
theorem array_reframing_example :
    natDec (.array 2 (.int .u8)) [0x9f, 0x01, 0x02, 0xff] = .ok (.tuple [.int .u8 1, .int .u8 2]) [] ∧
    de (NType.array 2 (.int .u8)).toS [0x9f, 0x01, 0x02, 0xff] = .err .message [0x01, 0x02, 0xff] := by
  constructor <;> rfl


/-! ## 3. the canonical bytes decode on both sides -/

theorem hasNPairs_even : {kvs : List SVal} → {k v : NType} → HasNPairs kvs k v → kvs.length % 2 = 0
  | _, _, _, .nil _ _ => rfl
  | _, _, _, .cons _ _ _ _ _ _ _ hs => by have := hasNPairs_even hs; simp; omega

mutual
theorem hasN_ok : {v : SVal} → {t : NType} → HasN v t → vok v = true
  | _, _, .bool _ => rfl
  | _, _, .int k v h1 h2 => by simp [vok, h1, h2]
  | _, _, .f32 b h => by simp [vok, h]
  | _, _, .f64 b h => by simp [vok, h]
  | _, _, .char c h => by simp [vok, h]
  | _, _, .str s h1 h2 => by simp [vok, nameOk, h1, h2]
  | _, _, .unit => rfl
  | _, _, .none _ => rfl
  | _, _, .some v t h hok _ => by simp [vok, hok]
  | _, _, .vec xs t h hl => by simp [vok, hl, hasNEach_ok h]
  | _, _, .array xs t h hl => by simp [vok, hl, hasNEach_ok h]
  | _, _, .tuple xs ts h hl => by simp [vok, hl, hasNAll_ok h]
  | _, _, .map kvs k v h hl _ => by simp [vok, hl, hasNPairs_ok h, hasNPairs_even h]
theorem hasNEach_ok : {xs : List SVal} → {t : NType} → HasNEach xs t → oks xs = true
  | _, _, .nil _ => rfl
  | _, _, .cons x xs t h hs => by simp [oks, hasN_ok h, hasNEach_ok hs]
theorem hasNAll_ok : {xs : List SVal} → {ts : List NType} → HasNAll xs ts → oks xs = true
  | _, _, .nil => rfl
  | _, _, .cons x xs t ts h hs => by simp [oks, hasN_ok h, hasNAll_ok hs]
theorem hasNPairs_ok : {kvs : List SVal} → {k v : NType} → HasNPairs kvs k v → oks kvs = true
  | _, _, _, .nil _ _ => rfl
  | _, _, _, .cons a b rest k v ha hb hs => by simp [oks, hasN_ok ha, hasN_ok hb, hasNPairs_ok hs]
end

mutual
/-- a value of a shared type is a value of its serde view. -/
def toHasT : {v : SVal} → {t : NType} → HasN v t → HasT v t.toS
  | _, _, .bool b => .bool b
  | _, _, .int k v h1 h2 => .int k v h1 h2
  | _, _, .f32 b h => .f32 b h
  | _, _, .f64 b h => .f64 b h
  | _, _, .char c h => .char c h
  | _, _, .str s h1 h2 => .str s h1 h2
  | _, _, .unit => .unit
  | _, _, .none t => .none t.toS
  | _, _, .some v t h hok hn => .some v t.toS (toHasT h) hok hn
  | _, _, .vec xs t h hl => .seq true xs t.toS (toHasEach h) hl (hasNEach_ok h)
  | _, _, .array xs t h hl => .tuple xs (List.replicate xs.length t.toS) (toHasAllRep h) hl
  | _, _, .tuple xs ts h hl => .tuple xs (NType.toSs ts) (toHasAll h) hl
  | _, _, .map kvs k v h hl hasc => .map true kvs k.toS v.toS (toHasPairs h) hl (hasNPairs_ok h) hasc
def toHasEach : {xs : List SVal} → {t : NType} → HasNEach xs t → HasEach xs t.toS
  | _, _, .nil t => .nil t.toS
  | _, _, .cons x xs t h hs => .cons x xs t.toS (toHasT h) (toHasEach hs)
def toHasAllRep : {xs : List SVal} → {t : NType} → HasNEach xs t → HasAll xs (List.replicate xs.length t.toS)
  | _, _, .nil _ => .nil
  | _, _, .cons x xs t h hs => .cons x xs t.toS (List.replicate xs.length t.toS) (toHasT h) (toHasAllRep hs)
def toHasAll : {xs : List SVal} → {ts : List NType} → HasNAll xs ts → HasAll xs (NType.toSs ts)
  | _, _, .nil => .nil
  | _, _, .cons x xs t ts h hs => .cons x xs t.toS (NType.toSs ts) (toHasT h) (toHasAll hs)
def toHasPairs : {kvs : List SVal} → {k v : NType} → HasNPairs kvs k v → HasPairs kvs k.toS v.toS
  | _, _, _, .nil k v => .nil k.toS v.toS
  | _, _, _, .cons a b rest k v ha hb hs => .cons a b rest k.toS v.toS (toHasT ha) (toHasT hb) (toHasPairs hs)
end

theorem natDecAll_rt : (ts : List NType) → (xs : List SVal) → AllRtD (ts.map natDec) xs → ∀ rest,
    natDecAll ts (sers xs ++ rest) = .ok xs rest
  | [], [], _, rest => by simp [natDecAll, sers]
  | [], _ :: _, h, _ => by simp [AllRtD] at h
  | _ :: _, [], h, _ => by simp [AllRtD] at h
  | t :: ts, x :: xs, h, rest => by
    simp only [List.map_cons, AllRtD] at h
    simp only [natDecAll, sers, List.append_assoc]
    rw [Dec.bind_ok _ _ _ _ _ (h.1 _), Dec.bind_ok _ _ _ _ _ (natDecAll_rt ts xs h.2 rest)]; rfl

theorem natArray_rt (m : Dec SVal) (xs : List SVal) (h : EachRt m xs) (hl : xs.length < U64) (rest : Bytes) :
    natArray m xs.length (Enc.array xs.length ++ (sers xs ++ rest)) = .ok xs rest := by
  unfold natArray
  rw [Dec.bind_ok _ _ _ _ _ (array_rt _ _ hl)]
  simp only
  have := arrLoopN_spec m xs.length xs.length [] (sers xs ++ rest) (by simp)
  rw [repeatN_rt m xs h rest] at this
  simp only [List.nil_append] at this
  rw [Dec.bind_ok _ _ _ _ _ this]
  simp

mutual
/-- the native decoder reads back what the native encoder (equivalently, the bridge) wrote. -/
theorem native_roundtrip : {v : SVal} → {t : NType} → HasN v t → ∀ rest, natDec t (ser v ++ rest) = .ok v rest
  | _, _, .bool b, rest => by
    simp only [natDec, ser]; rw [Dec.bind_ok _ _ _ _ _ (bool_rt b rest)]; rfl
  | _, _, .int k v h1 h2, rest => by
    simp only [natDec, ser]; rw [Dec.bind_ok _ _ _ _ _ (int_rt k v rest h1 h2)]; rfl
  | _, _, .f32 b h, rest => by
    simp only [natDec, ser]; rw [Dec.bind_ok _ _ _ _ _ (f32_rt b rest h)]; rfl
  | _, _, .f64 b h, rest => by
    simp only [natDec, ser]; rw [Dec.bind_ok _ _ _ _ _ (f64_rt b rest h)]; rfl
  | _, _, .char c h, rest => by
    simp only [natDec, ser]; rw [Dec.bind_ok _ _ _ _ _ (char_rt c rest h)]; rfl
  | _, _, .str s h1 h2, rest => by
    simp only [natDec, ser]; rw [Dec.bind_ok _ _ _ _ _ (str_rt s rest h1 h2)]; rfl
  | _, _, .unit, rest => by
    simp only [natDec, ser]; rw [Dec.bind_ok _ _ _ _ _ (deUnit_rt rest)]; rfl
  | _, _, .none t, rest => by
    have hd : datatype (0xf6 :: rest) = .ok .null (0xf6 :: rest) := datatype_nopeek _ _ (by decide)
    simp only [natDec, ser]
    show (datatype >>= _) (0xf6 :: rest) = _
    rw [Dec.bind_ok _ _ _ _ _ hd]
    simp only [beq_self_eq_true, if_true]
    rw [Dec.bind_ok _ _ _ _ _ (skip_null rest)]; rfl
  | _, _, .some v t h hok hn, rest => by
    obtain ⟨ty, hd, hne⟩ := datatype_not_null v hok hn rest
    simp only [natDec, ser]
    rw [Dec.bind_ok _ _ _ _ _ hd]
    simp only [hne, Bool.false_eq_true, if_false]
    rw [Dec.bind_ok _ _ _ _ _ (native_roundtrip h rest)]; rfl
  | _, _, .vec xs t h hl, rest => by
    simp only [natDec, ser, if_true, List.append_assoc]
    rw [Dec.bind_ok _ _ _ _ _ (array_rt _ _ hl),
      Dec.bind_ok _ _ _ _ _ (seqAccess_def_rt (natDec t) xs (native_each h) rest)]; rfl
  | _, _, .array xs t h hl, rest => by
    simp only [natDec, ser, List.append_assoc]
    rw [Dec.bind_ok _ _ _ _ _ (natArray_rt (natDec t) xs (native_each h) hl rest)]; rfl
  | _, _, .tuple xs ts h hl, rest => by
    have hlen := hasNAll_length h
    simp only [natDec, ser, List.append_assoc]
    rw [← hlen, Dec.bind_ok _ _ _ _ _ (tupleHeader_rt _ _ hl),
      Dec.bind_ok _ _ _ _ _ (natDecAll_rt ts xs (native_all h) rest)]; rfl
  | _, _, .map kvs k v h hl hasc, rest => by
    have hp := native_pairs h
    simp only [natDec, ser, if_true, List.append_assoc]
    rw [Dec.bind_ok _ _ _ _ _ (map_rt _ _ hl), Dec.bind_ok _ _ _ _ _ (mapAccess_def_rt (natDec k) (natDec v) kvs hp rest),
      mkMap_sorted kvs (PairsRt.even kvs hp) hasc]; rfl
theorem native_each : {xs : List SVal} → {t : NType} → HasNEach xs t → EachRt (natDec t) xs
  | _, _, .nil t => by intro x hx; cases hx
  | _, _, .cons x xs t h hs => by
    intro y hy rest
    rcases List.mem_cons.mp hy with e | hy'
    · rw [e]; exact native_roundtrip h rest
    · exact native_each hs y hy' rest
theorem native_all : {xs : List SVal} → {ts : List NType} → HasNAll xs ts → AllRtD (ts.map natDec) xs
  | _, _, .nil => by simp [AllRtD]
  | _, _, .cons x xs t ts h hs => by
    simp only [List.map_cons, AllRtD]
    exact ⟨fun r => native_roundtrip h r, native_all hs⟩
theorem native_pairs : {kvs : List SVal} → {k v : NType} → HasNPairs kvs k v → PairsRt (natDec k) (natDec v) kvs
  | _, _, _, .nil k v => by simp [PairsRt]
  | _, _, _, .cons a b rest k v ha hb hs => by
    simp only [PairsRt]
    exact ⟨fun r => native_roundtrip ha r, fun r => native_roundtrip hb r, native_pairs hs⟩
end

/-- **C18 (d).**  The bytes either side writes for a value of a shared type (they are the same
    bytes, `interop_bytes`) decode on *both* sides to that value, each stopping exactly after
    the item: bytes produced by one codec are read by the other. -/
theorem interop_decode_canonical {v : SVal} {t : NType} (h : HasN v t) (rest : Bytes) :
    natDec t (natEnc t v ++ rest) = .ok v rest ∧ de t.toS (natEnc t v ++ rest) = .ok v rest ∧
    natDec t (ser v ++ rest) = .ok v rest ∧ de t.toS (ser v ++ rest) = .ok v rest := by
  rw [← interop_bytes h]
  exact ⟨native_roundtrip h rest, roundtrip_plain (toHasT h) rest, native_roundtrip h rest, roundtrip_plain (toHasT h) rest⟩

/-- non-vacuity: `(Option<u16>, [i8; 2], BTreeMap<char, Vec<bool>>)`. -/
def exampleN : NType := .tuple [.option (.int .u16), .array 2 (.int .i8), .map .char (.vec .bool)]
def exampleNV : SVal :=
  .tuple [.some (.int .u16 65535), .tuple [.int .i8 (-128), .int .i8 127],
    .map true [.char 97, .seq true [.bool true], .char 8364, .seq true []]]
def exampleHasN : HasN exampleNV exampleN :=
  .tuple _ _
    (.cons _ _ _ _ (.some _ _ (.int .u16 65535 (by decide) (by decide)) rfl rfl)
      (.cons _ _ _ _ (.array [.int .i8 (-128), .int .i8 127] (.int .i8)
          (.cons _ _ _ (.int .i8 (-128) (by decide) (by decide)) (.cons _ _ _ (.int .i8 127 (by decide) (by decide)) (.nil _)))
          (by decide))
        (.cons _ _ _ _ (.map _ .char (.vec .bool)
            (.cons _ _ _ _ _ (.char 97 (by decide)) (.vec _ _ (.cons _ _ _ (.bool true) (.nil _)) (by decide))
              (.cons _ _ _ _ _ (.char 8364 (by decide)) (.vec _ _ (.nil _) (by decide)) (.nil _ _)))
            (by decide) (by simp [KeysAsc, keysOf, keyLt]))
          .nil)))
    (by decide)

example : ser exampleNV = natEnc exampleN exampleNV := interop_bytes exampleHasN

end Minicbor.C18
