/-
  C04 — typed decoding (`decodeT`, the built-in `Decode` impls) on well-formed encodings.
  Property theorems only.  Separate from Thm/C04.lean because the C01 lemmas import that file.

  Part B (typed): every strict prefix of a valid encoding of a value fails with the end-of-input
  class — for the encoder's own output (`typed_prefix_eoi`) and, more generally, for ANY input the
  type accepts, e.g. re-framings with wider heads or indefinite lengths (`typed_prefix_eoi_any`).
  Proof: `decodeT t` is stable under extension of its input (Lemmas/C04Stable*.lean): appending
  bytes can only change an end-of-input outcome; so a run on a strict prefix of an input that
  decodes successfully can neither succeed (it would stop at the same place, inside the prefix)
  nor fail with another class (the full input would fail the same way), and it never panics (C02).
-/
import Minicbor.Lemmas.C04StableTy
import Minicbor.Thm.C01

namespace Minicbor.C04
open Dec

/-- **stability** of typed decoding under extension of the input: a success is reproduced (same
    value, the appended bytes left over), and so is every error other than end-of-input. -/
theorem typed_stable (t : Ty) (bs q : Bytes) :
    (∀ v r, decodeT t bs = .ok v r → decodeT t (bs ++ q) = .ok v (r ++ q)) ∧
    (∀ e r, decodeT t bs = .err e r → e ≠ .eoi → decodeT t (bs ++ q) = .err e (r ++ q)) :=
  ⟨fun _ _ h => (decodeT_stable t).ok_ext q h, fun _ _ h hne => (decodeT_stable t).err_ext q h hne⟩

/-- **B (typed), general form.**  Whatever input a type accepts (canonical or re-framed, followed by
    anything): cut anywhere inside the part it has read, decoding fails with end-of-input — never a
    value, never another error class, never a panic. -/
theorem typed_prefix_eoi_any (t : Ty) (p q : Bytes) (v : Val) (r0 : Bytes)
    (h : decodeT t (p ++ q) = .ok v r0) (hlen : r0.length < q.length) :
    ∃ r, decodeT t p = .err .eoi r :=
  decodeT_prefix_eoi t p q v r0 h hlen

/-- **B (typed).**  For every built-in type `t` and value `v` the encoder accepts (side conditions
    of `C01.roundtrip`), every strict prefix of the encoding fails with the end-of-input class. -/
theorem typed_prefix_eoi (t : Ty) (v : Val) (bs p q : Bytes)
    (hwf : t.WF = true) (hno : t.NoOptOpt = true)
    (henc : encodeT t v = some bs) (hlen : bs.length < 2 ^ 64)
    (hpq : bs = p ++ q) (hq : q ≠ []) : ∃ r, decodeT t p = .err .eoi r := by
  have h := C01.roundtrip_exact t v bs hwf hno henc hlen
  rw [hpq] at h
  exact typed_prefix_eoi_any t p q v [] h (by cases q with | nil => exact absurd rfl hq | cons _ _ => simp)

/-- the same, phrased with `List.IsPrefix`. -/
theorem typed_prefix_eoi' (t : Ty) (v : Val) (bs p : Bytes)
    (hwf : t.WF = true) (hno : t.NoOptOpt = true)
    (henc : encodeT t v = some bs) (hlen : bs.length < 2 ^ 64)
    (hp : p <+: bs) (hne : p ≠ bs) : ∃ r, decodeT t p = .err .eoi r := by
  obtain ⟨q, hq⟩ := hp
  refine typed_prefix_eoi t v bs p q hwf hno henc hlen hq.symm ?_
  intro e; subst e; simp at hq; exact hne hq

/-- non-vacuity: the nested value of `C01`'s example, cut in the middle of a text string inside a
    tagged tuple inside an `Option` inside a `Vec` inside a map. -/
example :
    let t : Ty := .map .str (.seq (.opt (.tup [.int .u8, .tagged 5 .str])))
    ∃ r, decodeT t [0xa2, 0x61, 0x61, 0x82, 0x82, 0x18, 0xc8, 0xc5, 0x62, 0x62] = .err .eoi r := by
  exact typed_prefix_eoi _
    (.map [.str [0x61], .list [.some (.list [.int 200, .tagged (.str [0x62, 0x63])]), .none],
           .str [0xc3, 0xa9], .list []])
    [0xa2, 0x61, 0x61, 0x82, 0x82, 0x18, 0xc8, 0xc5, 0x62, 0x62, 0x63, 0xf6, 0x62, 0xc3, 0xa9, 0x80]
    _ [0x63, 0xf6, 0x62, 0xc3, 0xa9, 0x80] (by decide) (by decide) (by decide) (by decide) (by decide) (by decide)

end Minicbor.C04
