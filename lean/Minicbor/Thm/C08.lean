/-
  C08 — Derived `Encode` emits exactly the documented wire format.
  Property theorems only (helper lemmas: Lemmas/DeriveSort.lean, Lemmas/DeriveFrame.lean).

  `encTy` is the model of the generated `Encode` impl (Derive.lean, transcribed from
  minicbor-derive/src/encode.rs), `specTy` the documented format as a data-model value
  (transcribed from the documentation in lib.rs), `encPref` the RFC 8949 preferred
  serialisation (Wire.lean).  The theorems hold for *every* accepted schema and every value of
  it — unbounded in the number of fields, the size of indices, nesting depth and value sizes.
-/
import Minicbor.Lemmas.DeriveFrame

namespace Minicbor.C08
open Minicbor.Derive

/-! ### side facts about the per-field pieces -/

theorem nodupNat_nodup : ∀ (l : List Nat), nodupNat l = true → l.Nodup
  | [], _ => List.nodup_nil
  | x :: xs, h => by
    simp only [nodupNat, Bool.and_eq_true, Bool.not_eq_true', List.contains_eq_mem, decide_eq_false_iff_not] at h
    exact List.nodup_cons.2 ⟨h.1, nodupNat_nodup xs h.2⟩

theorem specFields_idxs : ∀ (fs : Fields) (vs : List Val), hasFields fs vs = true →
    idxs (specFields fs vs) = liveIdxs fs
  | [], [], _ => by simp [specFields, liveIdxs, idxs]
  | (a, t) :: fs, v :: vs, h => by
    simp only [hasFields, Bool.and_eq_true] at h
    have ih := specFields_idxs fs vs h.2
    cases hs : a.skip <;> simp [specFields, liveIdxs, hs] <;> simpa [idxs] using ih
  | [], _ :: _, h => by simp [hasFields] at h
  | _ :: _, [], h => by simp [hasFields] at h

theorem specFields_ok : ∀ (fs : Fields) (vs : List Val), acceptedFields fs = true →
    ∀ p ∈ specFields fs vs, p.idx < U32 ∧ tagOk p.tag = true
  | [], vs, _ => by cases vs <;> simp [specFields]
  | (a, t) :: fs, [], _ => by simp [specFields]
  | (a, t) :: fs, v :: vs, h => by
    simp only [acceptedFields, Bool.and_eq_true] at h
    have ih := specFields_ok fs vs h.2
    cases hs : a.skip
    · intro p hp
      simp only [specFields, hs, Bool.false_eq_true, if_false, List.mem_cons] at hp
      rcases hp with rfl | hp
      · have := h.1.1
        simp only [fieldAttrOk, hs, Bool.false_eq_true, if_false, Bool.and_eq_true, decide_eq_true_eq] at this
        exact ⟨this.1.1.1, this.1.1.2⟩
      · exact ih p hp
    · intro p hp
      simp only [specFields, hs, if_true] at hp
      exact ih p hp

/-! ### leaves -/

theorem int_spec (k : IntK) (i : Int) (h : k.inRange i = true) : k.enc i = encPref (intItem i) := by
  simp only [IntK.inRange, Bool.and_eq_true, decide_eq_true_eq] at h
  cases k <;> simp only [IntK.ty, Dec.IntTy.lo, Dec.IntTy.hi, Dec.IntTy.u8, Dec.IntTy.u16, Dec.IntTy.u32, Dec.IntTy.u64,
    Dec.IntTy.i8, Dec.IntTy.i16, Dec.IntTy.i32, Dec.IntTy.i64] at h
  · simp at h
    have : intItem i = .uint i.toNat := by unfold intItem; simp; omega
    rw [this]; exact C03.u8_pref _ (by omega)
  · simp at h
    have : intItem i = .uint i.toNat := by unfold intItem; simp; omega
    rw [this]; exact C03.u16_pref _ (by omega)
  · simp at h
    have : intItem i = .uint i.toNat := by unfold intItem; simp; omega
    rw [this]; exact C03.u32_pref _ (by omega)
  · simp at h
    have : intItem i = .uint i.toNat := by unfold intItem; simp; omega
    rw [this]; exact C03.u64_pref _ (by omega)
  · exact C03.i8_pref i (by simp at h; omega)
  · exact C03.i16_pref i (by simp at h; omega)
  · exact C03.i32_pref i (by simp at h; omega)
  · exact C03.i64_pref i (by simp at h; omega)

/-- byte-string fields (the kinds that exist only through `with = "minicbor::bytes"` included). -/
theorem blob_spec (t : FTy) (v : Val) (hb : fieldBlob t = true) (hv : hasTy t v = true) :
    encTy t v = encPref (specTy t v) := by
  cases t with
  | blob k =>
    cases v <;> simp [hasTy] at hv
    simp only [encTy, specTy]
    exact C03.bytes_pref _ (by simpa [U64] using hv)
  | option t =>
    cases t <;> simp [fieldBlob] at hb
    cases v <;> simp [hasTy] at hv
    · rfl
    · rename_i w
      cases w <;> simp [hasTy] at hv
      simp only [encTy, specTy]
      exact C03.bytes_pref _ (by simpa [U64] using hv)
  | _ => simp [fieldBlob] at hb

theorem isNil_spec (a : FAttr) (t : FTy) (v : Val) (hv : hasTy t v = true) :
    isNilField a t v = specAbsent a v := by
  unfold isNilField specAbsent
  cases a.codec <;> simp only
  all_goals
    cases v <;> simp [Val.isNone]
    cases t <;> simp [hasTy] at hv <;> rfl

theorem with_spec (a : FAttr) (t : FTy) (v : Val) (hc : codecOk a.codec t = true) (hv : hasTy t v = true)
    (hbody : encTy t v = encPref (specTy t v)) :
    encWith a.codec (encTy t) v = encPref (specWith a.codec (specTy t) v) := by
  cases hcd : a.codec
  · simpa [encWith, specWith] using hbody
  · simpa [encWith, specWith] using hbody
  · rw [hcd] at hc
    have ht : t = .int .u32 := by
      cases t <;> simp [codecOk] at hc
      rename_i k; cases k <;> simp [codecOk] at hc; rfl
    subst ht
    cases v <;> simp [hasTy] at hv
    rename_i i
    simp [IntK.inRange, IntK.ty, Dec.IntTy.lo, Dec.IntTy.hi, Dec.IntTy.u32] at hv
    simp only [encWith, specWith, Val.isZero]
    by_cases h0 : i = 0
    · subst h0; rfl
    · have : (i == 0) = false := by simpa using h0
      simp only [this, Bool.false_eq_true, if_false]
      have h2 := of_decide_eq_true hv.2
      exact C03.u32_pref _ (by omega)

theorem list_spec (t : FTy) (ih : ∀ v, hasTy t v = true → encTy t v = encPref (specTy t v)) :
    ∀ vs : List Val, vs.all (hasTy t) = true → (vs.map (encTy t)).flatten = encPrefs (vs.map (specTy t))
  | [], _ => by simp
  | v :: vs, h => by
    simp only [List.all_cons, Bool.and_eq_true] at h
    simp only [List.map_cons, List.flatten_cons, encPrefs_cons, ih v h.1, list_spec t ih vs h.2]

theorem emptyBody_spec (enc : Encoding) : emptyBody enc = encPref (specEmpty enc) := by
  cases enc <;> rfl

/-! ### the main theorem -/

mutual
/-- **derive_encode_spec** (inductive core): the derived encoder writes the preferred
    serialisation of the documented data-model value, for every accepted schema and value. -/
theorem enc_spec : ∀ (t : FTy) (v : Val), accepted t = true → hasTy t v = true →
    encTy t v = encPref (specTy t v)
  | .int k, v, _, hv => by
    cases v <;> simp [hasTy] at hv
    simp only [encTy, specTy]; exact int_spec k _ hv
  | .bool, v, _, hv => by
    cases v <;> simp [hasTy] at hv
    simp only [encTy, specTy]; exact C03.bool_pref _
  | .text k, v, _, hv => by
    cases v <;> simp [hasTy] at hv
    simp only [encTy, specTy]; exact C03.str_pref _ (by simpa [U64] using hv.2)
  | .blob k, v, _, hv => by
    cases v <;> simp [hasTy] at hv
    simp only [encTy, specTy]; exact C03.bytes_pref _ (by simpa [U64] using hv)
  | .option t, v, ha, hv => by
    simp only [accepted] at ha
    cases v <;> simp [hasTy] at hv
    · rfl
    · simp only [encTy, specTy]; exact enc_spec t _ ha hv
  | .vec t, v, ha, hv => by
    simp only [accepted] at ha
    cases v <;> simp [hasTy] at hv
    rename_i vs
    simp only [encTy, specTy]
    rw [list_spec t (fun v hv => enc_spec t v ha hv) vs (by simpa using hv.1)]
    have := encPref_array (vs.map (specTy t)) (by simpa [U64] using hv.2)
    simpa using this.symm
  | .struct a fs, v, ha, hv => by
    simp only [accepted, Bool.and_eq_true] at ha
    cases v <;> simp [hasTy] at hv
    rename_i vs
    have hf := fields_spec fs vs ha.1.1.1.2 hv
    simp only [encTy, specTy]
    cases htr : a.transparent
    · simp only [Bool.false_eq_true, if_false, hf]
      have nd : (idxs (specFields fs vs)).Nodup := by
        rw [specFields_idxs fs vs hv]; exact nodupNat_nodup _ ha.1.1.2
      rw [frame_spec _ _ nd (specFields_ok fs vs ha.1.1.1.2), encPref_tagI _ _ ha.1.1.1.1]
    · simp only [if_true, hf]
      -- exactly one, non-skipped, field
      have h1 := ha.2
      simp only [htr, Bool.not_true, Bool.false_or, Bool.and_eq_true] at h1
      match fs, vs, hv, h1 with
      | [(fa, ft)], [w], _, h1 =>
        have hs : fa.skip = false := by simpa using h1.2
        simp [specFields, hs, transparentBody, specTransparent, toBytes]
      | [(fa, ft)], [], hv, _ => simp [hasFields] at hv
      | [(fa, ft)], _ :: _ :: _, hv, _ => simp [hasFields] at hv
      | [], _, _, h1 => simp at h1
      | _ :: _ :: _, _, _, h1 => simp at h1
  | .enum a vars, v, ha, hv => by
    simp only [accepted, Bool.and_eq_true] at ha
    cases v <;> simp [hasTy] at hv
    rename_i k vs
    simp only [encTy, specTy]
    rw [vars_spec a vars k vs ha.1.1.2 hv, encPref_tagI _ _ ha.1.1.1]
termination_by structural t => t
/-- the per-field part of the expansion produces, field by field, the encodings of the
    documented per-field items (same index, tag and presence). -/
theorem fields_spec : ∀ (fs : Fields) (vs : List Val), acceptedFields fs = true → hasFields fs vs = true →
    encFields fs vs = (specFields fs vs).map toBytes
  | [], [], _, _ => by simp [encFields, specFields]
  | (a, t) :: fs, v :: vs, ha, hv => by
    simp only [acceptedFields, Bool.and_eq_true] at ha
    simp only [hasFields, Bool.and_eq_true] at hv
    have ih := fields_spec fs vs ha.2 hv.2
    cases hs : a.skip
    · have hbody : encTy t v = encPref (specTy t v) := by
        cases hb : fieldBlob t
        · exact enc_spec t v (by simpa [hb] using ha.1.2) hv.1
        · exact blob_spec t v hb hv.1
      have hc : codecOk a.codec t = true := by
        have := ha.1.1
        simp only [fieldAttrOk, hs, Bool.false_eq_true, if_false, Bool.and_eq_true] at this
        exact this.1.2
      simp only [encFields, specFields, hs, Bool.false_eq_true, if_false, List.map_cons, ih, toBytes,
        isNil_spec a t v hv.1, with_spec a t v hc hv.1 hbody]
    · simp only [encFields, specFields, hs, if_true, ih]
  | [], _ :: _, _, hv => by simp [hasFields] at hv
  | _ :: _, [], _, hv => by simp [hasFields] at hv
termination_by structural fs => fs
theorem vars_spec (e : EAttr) : ∀ (vars : Variants) (k : Nat) (vs : List Val),
    acceptedVars e vars = true → hasVars vars k vs = true →
    encVars e vars k vs = encPref (specVars e vars k vs)
  | [], _, _, _, hv => by simp [hasVars] at hv
  | (va, fs) :: rest, 0, vs, ha, hv => by
    simp only [acceptedVars, Bool.and_eq_true, decide_eq_true_eq] at ha
    simp only [hasVars] at hv
    obtain ⟨⟨⟨⟨⟨⟨hidx, htag⟩, hacc⟩, hnd⟩, hunit⟩, hio⟩, _⟩ := ha
    have hu32 := C03.u32_pref va.idx (by simpa [U32] using hidx)
    simp only [encVars, specVars]
    cases hsh : va.shape
    · -- unit variant
      cases hix : e.indexOnly
      · simp only [Bool.false_eq_true, if_false, hu32]
        rw [encPref_array _ (by simp [U64]), encPrefs_cons, encPrefs_cons, encPrefs_nil, encPref_tagI _ _ htag,
          emptyBody_spec]
        simp
      · simp only [if_true, hu32]
    all_goals
      have hix : e.indexOnly = false := by
        cases h : e.indexOnly
        · rfl
        · simp [h, hsh] at hio
      have hf := fields_spec fs vs hacc hv
      have nd : (idxs (specFields fs vs)).Nodup := by
        rw [specFields_idxs fs vs hv]; exact nodupNat_nodup _ hnd
      simp only [hix, Bool.false_eq_true, if_false, hu32, hf]
      rw [frame_spec _ _ nd (specFields_ok fs vs hacc)]
      rw [encPref_array _ (by simp [U64]), encPrefs_cons, encPrefs_cons, encPrefs_nil, encPref_tagI _ _ htag]
      simp
  | (va, fs) :: rest, k + 1, vs, ha, hv => by
    simp only [acceptedVars, Bool.and_eq_true] at ha
    simp only [hasVars] at hv
    simp only [encVars, specVars]
    exact vars_spec e rest k vs ha.2 hv
termination_by structural vars => vars
end

/-- **C08, main statement.**  For every struct or enum definition accepted by the derive macros
    and every value of it, the bytes produced by the derived `Encode` are exactly the documented
    format: `deriveEncode = encPref ∘ specTy` (= `specEncode`). -/
theorem derive_encode_spec (t : FTy) (v : Val) (ha : accepted t = true) (hv : hasTy t v = true) :
    deriveEncode t v = specEncode t v := enc_spec t v ha hv

/-! ### what the documented format says (read off `specTy`; stated for the record) -/

/-- array encoding: the array ends at the highest present index; position `i` holds the (tagged)
    field with index `i`, every other position is `null`. -/
theorem spec_array_shape (ps : List (Piece Item)) (m : Nat) (h : maxPresent ps = some m) :
    ∃ xs, specArray ps = .array xs ∧ xs.length = m + 1 ∧
      ∀ i, i ≤ m → xs[i]? = some (match ps.find? (fun p => p.idx == i) with
        | some p => tagI p.tag p.body
        | none => nullI) := by
  refine ⟨_, by rw [specArray_eq, h], by simp, ?_⟩
  intro i hi
  simp only [List.getElem?_map, cellAt]
  rw [List.getElem?_range (by omega)]
  rfl

/-- map encoding: exactly the present fields, as `index, (tagged) value` pairs in ascending
    index order (stated on the index-sorted field list). -/
theorem spec_map_shape (ps : List (Piece Item)) (nd : (idxs ps).Nodup) :
    specMap ps = .map (entries (sortP ps)) := by
  have hperm := sortP_perm ps
  have nd' : (idxs (sortP ps)).Nodup := (idxs_perm hperm).nodup_iff.2 nd
  rw [← specMap_perm hperm nd', specMap_eq]
  cases hm : maxPresent (sortP ps) with
  | none =>
    have hnil := maxPresent_none hm
    have hE : ∀ (l : List (Piece Item)), (∀ q ∈ l, q.nil = true) → entries l = [] := by
      intro l hl
      induction l with
      | nil => rfl
      | cons r rs ih => simp [entries, hl r (by simp), ih (fun q hq => hl q (by simp [hq]))]
    rw [hE _ hnil]
  | some m =>
    simp only
    have := flatMap_entryAt m (sortP ps) 0 (sortP_asc ps nd) (by simp) (maxPresent_ge hm)
    simp only [Nat.sub_zero] at this
    rw [List.range_eq_range', this]

/-! ### names, `n` vs `b`, declaration order -/

mutual
/-- erase everything the documentation says is irrelevant for the bytes: all names and the
    `n`/`b` choice. -/
def anonymize : FTy → FTy
  | .option t => .option (anonymize t)
  | .vec t => .vec (anonymize t)
  | .struct a fs => .struct { a with name := "" } (anonFields fs)
  | .enum a vars => .enum { a with name := "" } (anonVars vars)
  | t => t
termination_by structural t => t
def anonFields : Fields → Fields
  | [] => []
  | (a, t) :: fs => ({ a with name := "", isB := false }, anonymize t) :: anonFields fs
termination_by structural fs => fs
def anonVars : Variants → Variants
  | [] => []
  | (va, fs) :: rest => ({ va with name := "", isB := false }, anonFields fs) :: anonVars rest
termination_by structural vars => vars
end

mutual
theorem enc_anon : ∀ (t : FTy) (v : Val), encTy (anonymize t) v = encTy t v
  | .int _, _ => rfl
  | .bool, _ => rfl
  | .text _, _ => rfl
  | .blob _, _ => rfl
  | .option t, v => by
    cases v <;> simp only [anonymize, encTy]
    exact enc_anon t _
  | .vec t, v => by
    cases v <;> simp only [anonymize, encTy]
    rename_i vs
    have : vs.map (encTy (anonymize t)) = vs.map (encTy t) := List.map_congr_left (fun v _ => enc_anon t v)
    rw [this]
  | .struct a fs, v => by
    cases v <;> simp only [anonymize, encTy]
    rename_i vs
    rw [fields_anon fs vs]
  | .enum a vars, v => by
    cases v <;> simp only [anonymize, encTy]
    rename_i k vs
    rw [vars_anon a vars k vs]
termination_by structural t => t
theorem fields_anon : ∀ (fs : Fields) (vs : List Val), encFields (anonFields fs) vs = encFields fs vs
  | [], vs => by cases vs <;> simp [anonFields, encFields]
  | (a, t) :: fs, [] => by simp [anonFields, encFields]
  | (a, t) :: fs, v :: vs => by
    have h1 : isNilField { a with name := "", isB := false } (anonymize t) v = isNilField a t v := by
      have : (anonymize t).isOption = t.isOption := by cases t <;> simp [anonymize, FTy.isOption]
      simp [isNilField, this]
    have h2 : encWith a.codec (encTy (anonymize t)) v = encWith a.codec (encTy t) v := by
      cases a.codec <;> simp [encWith, enc_anon t v]
    simp only [anonFields, encFields, fields_anon fs vs, h1, h2]
termination_by structural fs => fs
theorem vars_anon (e : EAttr) : ∀ (vars : Variants) (k : Nat) (vs : List Val),
    encVars { e with name := "" } (anonVars vars) k vs = encVars e vars k vs
  | [], _, _ => by simp [anonVars, encVars]
  | (va, fs) :: rest, 0, vs => by simp only [anonVars, encVars, fields_anon fs vs]
  | (va, fs) :: rest, k + 1, vs => by simp only [anonVars, encVars]; exact vars_anon e rest k vs
termination_by structural vars => vars
end

/-- **names never influence the bytes**: two definitions that differ only in type, field and
    variant names and in the `n`/`b` choice (at any nesting depth) encode every value alike. -/
theorem derive_encode_names_irrelevant (t t' : FTy) (h : anonymize t = anonymize t') (v : Val) :
    deriveEncode t v = deriveEncode t' v := by
  unfold deriveEncode
  rw [← enc_anon t v, ← enc_anon t' v, h]

theorem encFields_zip : ∀ (fs : Fields) (vs : List Val), fs.length = vs.length →
    encFields fs vs = ((fs.zip vs).filter (fun x => !x.1.1.skip)).map
      (fun x => ⟨x.1.1.idx, x.1.1.tag, isNilField x.1.1 x.1.2 x.2, encWith x.1.1.codec (encTy x.1.2) x.2⟩)
  | [], [], _ => by simp [encFields]
  | (a, t) :: fs, v :: vs, h => by
    have ih := encFields_zip fs vs (by simpa using h)
    cases hs : a.skip <;> simp [encFields, hs, ih]
  | [], _ :: _, h => by simp at h
  | _ :: _, [], h => by simp at h

theorem liveIdxs_zip : ∀ (fs : Fields) (vs : List Val), fs.length = vs.length →
    liveIdxs fs = (((fs.zip vs).filter (fun x => !x.1.1.skip)).map (fun x => x.1.1.idx))
  | [], [], _ => by simp [liveIdxs]
  | (a, t) :: fs, v :: vs, h => by
    have ih := liveIdxs_zip fs vs (by simpa using h)
    cases hs : a.skip <;> simp [liveIdxs, hs, ih]
  | [], _ :: _, h => by simp at h
  | _ :: _, [], h => by simp at h

/-- **declaration order never influences the bytes**: declaring the fields of a struct in another
    order (the values permuted alike) gives the same encoding. -/
theorem derive_encode_reorder_irrelevant (a : SAttr) (fs fs' : Fields) (vs vs' : List Val)
    (hl : fs.length = vs.length) (hl' : fs'.length = vs'.length)
    (hperm : (fs.zip vs).Perm (fs'.zip vs')) (nd : (liveIdxs fs).Nodup) (hnt : a.transparent = false) :
    deriveEncode (.struct a fs) (.struct vs) = deriveEncode (.struct a fs') (.struct vs') := by
  unfold deriveEncode
  simp only [encTy, hnt, Bool.false_eq_true, if_false]
  have hp : (encFields fs vs).Perm (encFields fs' vs') := by
    rw [encFields_zip fs vs hl, encFields_zip fs' vs' hl']
    exact (hperm.filter _).map _
  have nd' : (idxs (encFields fs vs)).Nodup := by
    rw [encFields_zip fs vs hl, liveIdxs_zip fs vs hl] at *
    simpa [idxs, Function.comp_def] using nd
  unfold frame
  rw [sortP_perm_eq hp nd']

/-- … and so does the declaration order of the fields of an enum variant. -/
theorem derive_encode_reorder_variants (e : EAttr) (va : VAttr) (fs fs' : Fields) (rest : Variants)
    (vs vs' : List Val) (hl : fs.length = vs.length) (hl' : fs'.length = vs'.length)
    (hperm : (fs.zip vs).Perm (fs'.zip vs')) (nd : (liveIdxs fs).Nodup) :
    deriveEncode (.enum e ((va, fs) :: rest)) (.enum 0 vs) = deriveEncode (.enum e ((va, fs') :: rest)) (.enum 0 vs') := by
  unfold deriveEncode
  simp only [encTy, encVars]
  have hp : (encFields fs vs).Perm (encFields fs' vs') := by
    rw [encFields_zip fs vs hl, encFields_zip fs' vs' hl']
    exact (hperm.filter _).map _
  have nd' : (idxs (encFields fs vs)).Nodup := by
    rw [encFields_zip fs vs hl, liveIdxs_zip fs vs hl] at *
    simpa [idxs, Function.comp_def] using nd
  unfold frame
  rw [sortP_perm_eq hp nd']

/-- the derived encoder is a function of schema and value (no hidden state, no iteration order). -/
theorem derive_encode_deterministic (t : FTy) (v v' : Val) (h : v = v') : deriveEncode t v = deriveEncode t v' := by
  rw [h]

/-! re-exports of the list-level facts the statements above rest on -/
theorem sortP_perm (l : List (Piece Bytes)) : (sortP l).Perm l := Derive.sortP_perm l
theorem sortP_sorted (l : List (Piece Bytes)) (nd : (idxs l).Nodup) : Asc (sortP l) := Derive.sortP_asc l nd
theorem sortP_perm_eq {l₁ l₂ : List (Piece Bytes)} (h : l₁.Perm l₂) (nd : (idxs l₁).Nodup) : sortP l₁ = sortP l₂ :=
  Derive.sortP_perm_eq h nd
theorem frameArray_spec (S : List (Piece Item)) (hasc : Asc S) (hok : ∀ p ∈ S, p.idx < U32 ∧ tagOk p.tag = true) :
    frameArray (S.map toBytes) = encPref (specArray S) := frameArray_sorted S hasc hok
theorem frameMap_spec (S : List (Piece Item)) (hasc : Asc S) (hok : ∀ p ∈ S, p.idx < U32 ∧ tagOk p.tag = true) :
    frameMap (S.map toBytes) = encPref (specMap S) := frameMap_sorted S hasc hok

/-! ### non-vacuity: accepted, well-typed instances exercising gaps, tags, map, nil codec, enums -/

def exStruct : FTy := .struct { tag := some 9 }
  [({ idx := 3, tag := some 5 }, .option (.int .u8)), ({ idx := 0 }, .text .string), ({ idx := 1, codec := .nilu }, .int .u32),
   ({ skip := true }, .bool)]
def exEnum : FTy := .enum { enc := some .map }
  [({ idx := 0, shape := .unit }, []), ({ idx := 7, shape := .named, tag := some 1 }, [({ idx := 2 }, .option exStruct)])]

example : accepted exStruct = true ∧ hasTy exStruct (.struct [.some (.int 7), .text [0x61], .int 0, .bool true]) = true := by
  constructor <;> rfl
example : deriveEncode exStruct (.struct [.some (.int 7), .text [0x61], .int 0, .bool true])
    = [0xc9, 0x84, 0x61, 0x61, 0xf6, 0xf6, 0xc5, 0x07] := by rfl
example : accepted exEnum = true ∧ hasTy exEnum (.enum 1 [.some (.struct [.none, .text [], .int 5, .bool false])]) = true := by
  constructor <;> rfl
example : deriveEncode exEnum (.enum 1 [.some (.struct [.none, .text [], .int 5, .bool false])])
    = [0x82, 0x07, 0xc1, 0xa1, 0x02, 0xc9, 0x82, 0x60, 0x05] := by rfl

end Minicbor.C08
