/-
  mcdrv: the model driver.  Reads one operation per line on stdin, runs the model's own
  executable definitions (the ones the theorems are about) and prints one canonical
  result line per operation.
-/
import Minicbor.Drv.Core
import Minicbor.Drv.Float
import Minicbor.Drv.Sink
import Minicbor.Drv.Parse
import Minicbor.Drv.Derive
import Minicbor.Drv.Typed
import Minicbor.Drv.Token
import Minicbor.Drv.Balanced
import Minicbor.Drv.Frame
import Minicbor.Drv.Serde
import Minicbor.Drv.Attrs
import Minicbor.Drv.Iter

open Minicbor Minicbor.Drv

def dispatch (line : String) : String :=
  -- words starting with `#` are annotations for the orchestrator
  match (line.trimAscii.toString.splitOn " ").filter (fun w => !w.startsWith "#") with
  | "enc" :: w => encOp w
  | "dec" :: w => decOp w
  | "fblk" :: w => fblkOp w
  | "fnarrow" :: w => fnarrowOp w
  | "sink" :: w => sinkOp w | "sinkenc" :: w => sinkencOp w
  | "encseq" :: w => encseqOp w
  | "tovecs" :: w => tovecsOp w
  | "encspec" :: w => encSpec w
  | "wf" :: w => wfOp w
  | "seq" :: w => seqOp w
  | "size" :: w => sizeOp w
  | "aiter" :: w => aiterOp w
  | "enciter" :: w => enciterOp w
  | "intconv" :: w => intconvOp w
  | "tenc" :: w => Typed.tencOp w
  | "tdec" :: w => Typed.tdecOp w
  | "tokenc" :: w => Tok.tokencOp w
  | "tokdec" :: w => Tok.tokdecOp w
  | "balanced" :: w => Bal.balancedOp w
  | "display" :: w => Tok.displayOp w
  | "fwrite" :: w => fwriteOp w
  | "fread" :: w => freadOp w
  | "aread" :: w => areadOp w
  | "areadm" :: w => areadmOp w
  | "awrite" :: w => awriteOp w
  | "denc" :: w => Dv.dencOp w
  | "dspec" :: w => Dv.dspecOp w
  | "ddec" :: w => Dv.ddecOp w
  | "dcompat" :: w => Dv.dcompatOp w
  | "dproject" :: w => Dv.dprojectOp w
  | "daccept" :: w => Dv.dacceptOp w
  | "astruct" :: w => At.astructOp w
  | "aenum" :: w => At.aenumOp w
  | "ser" :: w => serdeOp ("ser" :: w) | "de" :: w => serdeOp ("de" :: w) | "rt" :: w => serdeOp ("rt" :: w) | "iser" :: w => serdeOp ("iser" :: w) | "ide" :: w => serdeOp ("ide" :: w)
  | _ => "bad-op"

partial def loop (h : IO.FS.Stream) (out : IO.FS.Stream) : IO Unit := do
  let line ← h.getLine
  if line.isEmpty then return ()
  let t := line.trimAscii.toString
  if t.isEmpty || t.startsWith "#" then loop h out
  else
    out.putStrLn (dispatch t)
    loop h out

def main : IO Unit := do
  let out ← IO.getStdout
  loop (← IO.getStdin) out
