/-
  mcdrv: the model driver.  Reads one operation per line on stdin, runs the model's own
  executable definitions (the ones the theorems are about) and prints one canonical
  result line per operation.
-/
import Minicbor.Drv.Core

open Minicbor Minicbor.Drv

def dispatch (line : String) : String :=
  -- words starting with `#` are annotations for the orchestrator
  match (line.trimAscii.toString.splitOn " ").filter (fun w => !w.startsWith "#") with
  | "enc" :: w => encOp w
  | "dec" :: w => decOp w
  | "encspec" :: w => encSpec w
  | _ => "bad-op"

partial def loop (h : IO.FS.Stream) (out : IO.FS.Stream) : IO Unit := do
  let line ← h.getLine
  if line.isEmpty then return ()
  let t := line.trimAscii.toString
  if t.isEmpty || t.startsWith "#" then loop h out
  else
    out.putStrLn (dispatch t)
    loop h out

def main : IO Unit := do
  let out ← IO.getStdout
  loop (← IO.getStdin) out
