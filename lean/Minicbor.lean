import Minicbor.Prelude
import Minicbor.Utf8
import Minicbor.Wire
import Minicbor.Float
import Minicbor.Encoder
import Minicbor.Decoder
